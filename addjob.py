#!/usr/bin/env python3
# addjob.py <ID> '<job json>' ['<bound text>']  — append a job (and a bounds line) to checks/<ID>.json
import json,sys
p='/verif/checks/%s.json'%sys.argv[1]; d=json.load(open(p))
j=json.loads(sys.argv[2])
if j not in d['jobs']: d['jobs'].append(j)
if len(sys.argv)>3 and sys.argv[3] not in d.setdefault('bounds',[]): d['bounds'].append(sys.argv[3])
json.dump(d,open(p,'w'),indent=1)
