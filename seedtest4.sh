#!/bin/bash
# seedtest4.sh <PROP>  — confirm a round-4 seeded change (deliverables in /tmp/seed4/<PROP>, worktree /tmp/seed4/wt_<PROP>
# at /repo's HEAD with patch.diff applied): demo fails with / passes without the change, build and existing tests with it.
export GOFLAGS=-mod=mod GOPROXY=off GOSUMDB=off GOTOOLCHAIN=local
P=$1; S=/tmp/seed4/$P; W=/tmp/seed4/wt_$P
DEMO=$(head -3 $S/demo_test.go | grep -o '[a-z/]*zz_seed4_demo_test.go' | head -1)
PKG=$(dirname $DEMO)
cd $W || exit 2
git diff --quiet && { echo "$P: worktree has no change"; exit 2; }
cp $S/demo_test.go $W/$DEMO
go test -vet=off -count=1 -run 'Seed4' ./$PKG/ 2>&1 | tail -4 > $S/demo_with.txt
git apply -R $S/patch.diff
go test -vet=off -count=1 -run 'Seed4' ./$PKG/ 2>&1 | tail -4 > $S/demo_without.txt
git apply $S/patch.diff
rm -f $W/$DEMO
(go build ./... && go test -vet=off -count=1 ./core/ ./sys/ ./cron/ ./service/ ./storage/... 2>&1 | grep -E "^(--- FAIL|FAIL|ok|panic)") > $S/existing_tests.txt 2>&1
echo "$P with: $(tail -1 $S/demo_with.txt | cut -c1-60) | without: $(tail -1 $S/demo_without.txt | cut -c1-60) | existing: $(grep -c '^ok' $S/existing_tests.txt) ok, fails: $(grep '^--- FAIL' $S/existing_tests.txt | tr '\n' ' ')"
