#!/bin/bash
# seedtest.sh <PROP> <worktree> [seed-name]  — confirm a seeded change, then run the property's check against it
export GOFLAGS=-mod=mod GOPROXY=off GOSUMDB=off GOTOOLCHAIN=local
P=$1; WT=$2; NAME=${3:-$P}
D=/verif/seeded/$NAME
mkdir -p $D
cp $WT/seeded.diff $D/patch.diff
cp $WT/core/zz_seeded_demo_test.go $D/demo_test.go 2>/dev/null || cp $WT/*/zz_seeded_demo_test.go $D/demo_test.go
PKG=$(dirname $(cd $WT && ls */zz_seeded_demo_test.go | head -1))
cd $WT
echo "== demo WITH change (expect FAIL)"; go test -vet=off -count=1 -run 'TestSeededDemo$' ./$PKG/ 2>&1 | tail -3 > $D/demo_with.txt; tail -1 $D/demo_with.txt
git apply -R seeded.diff
echo "== demo WITHOUT change (expect ok)"; go test -vet=off -count=1 -run 'TestSeededDemo$' ./$PKG/ 2>&1 | tail -3 > $D/demo_without.txt; tail -1 $D/demo_without.txt
git apply seeded.diff
mv $PKG/zz_seeded_demo_test.go /tmp/demo_$NAME.go
echo "== build + existing tests WITH change"; go build ./... && go test -vet=off -count=1 ./core/ ./sys/ ./cron/ ./service/ 2>&1 | grep -E "^(--- FAIL|FAIL|ok)" > $D/existing_tests.txt; cat $D/existing_tests.txt
mv /tmp/demo_$NAME.go $PKG/zz_seeded_demo_test.go
echo "== check $P against the change"
git -C /repo apply $D/patch.diff && (cd /verif && ./vcheck $P > $D/check_output.txt 2>&1; echo "exit=$?" >> $D/check_output.txt); git -C /repo checkout -- .
grep -c "^VIOLATION" $D/check_output.txt; tail -2 $D/check_output.txt | cut -c1-220
