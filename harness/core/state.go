package core

// Shared "state harness": real IndexedState / LinearState (and Location on top) over the
// real MemStorage, driven by short operation histories with symbolic ids and leaves.

import "strconv"

const vhNow = int64(1600000000) * 1000000000

type vhEnv struct {
	kind  int // 0 indexed, 1 linear
	ctx   *Context
	store *MemStorage
	state State
	loc   *Location
	name  string
}

func vhNewState(ctx *Context, kind int, name string, store Storage) State {
	var st State
	var err error
	if kind == 0 {
		st, err = NewIndexedState(ctx, name, store)
	} else {
		st, err = NewLinearState(ctx, name, store)
	}
	vassume(err == nil)
	return st
}

// vhNewEnv builds a fresh location of the given state kind over a fresh MemStorage.
// vhNoise: let a stressed native replay perturb the schedule at every log record (the
// engine's Log is a stub, so this has no effect there).
func vhNoise(ctx *Context) {
	ctx.LogHook = func(level LogLevel, args ...interface{}) { vjitter() }
}

func vhNewEnv(kind int) *vhEnv {
	vsetNow(vhNow)
	ctx := NewContext("verif")
	vhNoise(ctx)
	store, err := NewMemStorage(ctx)
	vassume(err == nil)
	return vhOpenEnv(kind, ctx, store, "here")
}

// vhOpenEnv (re)builds a location from the storage alone.
func vhOpenEnv(kind int, ctx *Context, store *MemStorage, name string) *vhEnv {
	st := vhNewState(ctx, kind, name, store)
	loc, err := NewLocation(ctx, name, st, nil)
	vassume(err == nil)
	// The real Log consults loc.Control() on every record, so a location's lazily
	// initialised control is set while NewLocation still owns it; the Log stub does
	// not, so the harness performs that first call here.
	loc.Control()
	return &vhEnv{kind: kind, ctx: ctx, store: store, state: st, loc: loc, name: name}
}

// vhId returns the i-th symbolic fact id: a valid caller-supplied id (non-empty, not a
// property id). Two ids may alias; the solver decides.
func vhId(i int) string {
	id := vsymStrN("id"+strconv.Itoa(i), 4)
	vassume(id != "")
	vassume(!vhasPrefix(id, "!"))
	return id
}

// vhIdD: like vhId but ids with different indexes are distinct (re-use of an id is then
// explored by choosing the same index again, not by aliasing).
func vhIdD(i int) string {
	id := vhId(i)
	vassume(!IsVariable(id))          // variable-looking ids: see C08 (cascade) and C13
	vassume(!vhasPrefix(id, "uuid#")) // the UUID stub's namespace
	for j := 0; j < i; j++ {
		vassume(id != vhId(j))
	}
	return id
}

// vhFact builds a small plain fact: shape 0 {k:S}, shape 1 {k1:S,k2:S}, shape 2 {k:{k:S}}.
// Keys are ordinary property names (not reserved words, not variables, no '!').
func vhFact(prefix string, shape int) Map {
	b := &vhB{prefix: prefix, lite: true}
	switch shape {
	case 0:
		return Map{vhPlainKey(b): b.scalar()}
	case 1:
		k1, k2 := vhPlainKey(b), vhPlainKey(b)
		vassume(k1 != k2)
		return Map{k1: b.scalar(), k2: b.scalar()}
	case 2:
		return Map{vhPlainKey(b): map[string]interface{}{vhPlainKey(b): b.scalar()}}
	}
	vassume(false)
	return nil
}

// vhCKey: a concrete key from a two-letter alphabet (an explored decision). Concrete keys
// keep the term index from forking on key aliasing; values stay symbolic, so value/key
// and value/value term collisions are still decided by the solver.
func vhCKey() string {
	if vchoose(2) == 0 {
		return "a"
	}
	return "b"
}

// vhFactC: like vhFact with concrete keys. shape 0 {K:S}, 1 {a:S,b:S}, 2 {K:{K:S}}.
func vhFactC(prefix string, shape int) Map {
	b := &vhB{prefix: prefix, lite: true}
	switch shape {
	case 0:
		return Map{vhCKey(): b.scalar()}
	case 1:
		return Map{"a": b.scalar(), "b": b.scalar()}
	case 2:
		return Map{vhCKey(): map[string]interface{}{vhCKey(): b.scalar()}}
	}
	vassume(false)
	return nil
}

// vhPatternC: search patterns with concrete keys. shape 0 {K:L}, 1 {a:L,b:L}, 2 {K:{K:L}},
// 3 {} (everything).
func vhPatternC(prefix string, shape int) Map {
	b := &vhB{prefix: prefix, lite: true}
	switch shape {
	case 0:
		return Map{vhCKey(): b.leaf("?x")}
	case 1:
		return Map{"a": b.leaf("?x"), "b": b.leaf("?x", "?y")}
	case 2:
		return Map{vhCKey(): map[string]interface{}{vhCKey(): b.leaf("?x")}}
	case 3:
		return Map{}
	}
	vassume(false)
	return nil
}

// vhPlainKey: a key that is not one of the reserved words of facts.
func vhPlainKey(b *vhB) string {
	k := b.key()
	vassume(!vhasPrefix(k, "!"))
	vassume(k != "rule")
	vassume(k != "ttl")
	vassume(k != "expires")
	vassume(k != "id")
	vassume(k != KW_id)
	vassume(k != KW_DeleteWith)
	return k
}

func vhIsNotFound(err error) bool {
	_, is := err.(*NotFoundError)
	return is
}
