package core

// C14 — script execution is contained.
//
// Unit: RunJavascript's own code after environment set-up: timeout selection, the
// watchdog goroutine, the Interrupt channel, the deferred recover and clean-up. otto is
// the environment: New/Set/ToValue/Export are trivial models and Run is a protocol model
// of four script families (natively the real otto runs the same texts):
//   "1+1" terminates with a value; "throw 'x'" fails; "while(true){}" never ends unless
//   a function arrives on Interrupt (which Run then calls: it panics Halt);
//   "Env.sleep(SLOW); 1+1" finishes after SLOW ns unless interrupted first.
//
//verif:bounds one script run per path; JavascriptTimeout on the location in {0 (use the
// system default), symbolic 1..100 ms}; DefaultJavascriptTimeout symbolic 1..100 ms;
// timeouts enabled; SLOW symbolic 1..200 ms.

import "time"

const vhMs = int64(1000000)

func vhC14Env(locTimeoutMs, defTimeoutMs int64) *vhEnv {
	env := vhNewEnv(1)
	c := DefaultControl()
	c.JavascriptTimeout = Duration(locTimeoutMs * vhMs)
	env.loc.SetControl(c)
	SystemParameters.JavascriptTimeouts = true
	SystemParameters.DefaultJavascriptTimeout = time.Duration(defTimeoutMs * vhMs)
	env.ctx.SetLoc(env.loc)
	return env
}

// VH_C14_run: family 0 value, 1 throw, 2 loop, 3 slow; locCfg 0: location timeout 0 (system
// default applies), 1: location timeout set, 2: negative location timeout (none for this
// location), 3: negative system default, 4: timeouts switched off.
func VH_C14_run(family, locCfg int) {
	vrealclock() // native replay: real otto, real timers, real sleeps
	def := int64(vsymInt("defaultTimeoutMs", 1, 100))
	loc := int64(0)
	unlimited := false
	switch locCfg {
	case 1:
		loc = int64(vsymInt("locTimeoutMs", 1, 100))
	case 2: // negative location timeout: no timeout for this location
		loc = int64(vsymInt("locTimeoutMs", -100, -1))
		unlimited = true
	case 3: // negative system default, nothing set on the location
		def = int64(vsymInt("negDefaultTimeoutMs", -100, -1))
		unlimited = true
	case 4: // timeouts switched off system-wide
		loc = int64(vsymInt("locTimeoutMs", 0, 100))
		unlimited = true
	}
	if unlimited {
		vassume(family != 2) // a non-terminating script then hangs by design
	}
	env := vhC14Env(loc, def)
	if locCfg == 4 {
		SystemParameters.JavascriptTimeouts = false
	}
	selected := def
	if loc != 0 {
		selected = loc
	}
	code := []string{"1+1", "throw 'x'", "while(true){}", "Env.sleep(SLOW); 1+1"}[family]
	bs := Bindings{}
	slow := int64(0)
	if family == 3 {
		slow = int64(vsymInt("slowMs", 1, 200))
		vassume(unlimited || slow != selected) // the exact tie is a race between two timers
		if unlimited && def > 0 {
			// keep clear of the (unused) system default so that a witness replays
			// natively without a timer race
			vassume(slow+20 <= def || slow >= def+20)
		}
		bs["SLOW"] = float64(slow * vhMs)
		vottoSlow(slow * vhMs)
	}
	script, err := CompileJavascript(env.ctx, env.loc, nil, code)
	vassume(err == nil)
	start := vgetNow()
	x, rerr := RunJavascript(env.ctx, &bs, nil, script)
	elapsed := vgetNow() - start
	// the caller got control back (reaching this line at all), within the limit
	switch family {
	case 0:
		vassert(rerr == nil && x != nil, "terminating-script-returns-its-value")
	case 1:
		vassert(rerr != nil, "throwing-script-is-an-error")
	case 2:
		vassert(rerr != nil, "halted-script-is-reported-as-error")
		vassert(elapsed >= selected*vhMs, "not-halted-before-the-selected-timeout")
	case 3:
		if unlimited || slow < selected {
			vassert(rerr == nil && x != nil, "script-within-limit-unaffected")
		} else {
			vassert(rerr != nil, "halted-script-is-reported-as-error")
		}
	}
	vreach("end")
}

// ---- libraries ------------------------------------------------------------------------
//
// An action names its libraries; the names are resolved through the control of the location
// the action runs in, at the time it runs. Here the real CompileJavascript body runs
// (library lookup, concatenation); otto's parser and evaluator are the model of §3.4.

const (
	vhLibGood   = `function verdict(n) { return "good:" + n; }`
	vhLibBroken = `function verdict(n) { return "bad:" + ; } // @@syntax-error@@`
	vhLibThrows = `throw "no verdicts today"; // @@lib-throws@@`
)

func vhC14LibLoc(name string, kind int, lib string) (*Context, *Location) {
	ctx := NewContext("c14" + name)
	store, err := NewMemStorage(ctx)
	vassume(err == nil)
	st := vhNewState(ctx, kind, name, store)
	loc, err := NewLocation(ctx, name, st, nil)
	vassume(err == nil)
	c := DefaultControl()
	c.Libraries = map[string]string{"checks": lib}
	loc.SetControl(c)
	_, err = loc.AddRule(ctx, "r", Map{
		"when":   map[string]interface{}{"pattern": map[string]interface{}{"ping": "?n"}},
		"action": map[string]interface{}{"code": "1", "opts": map[string]interface{}{"libraries": []interface{}{"checks"}}},
	})
	vassume(err == nil)
	return ctx, loc
}

// vhC14LibRun sends the event and says whether the rule's one action completed.
func vhC14LibRun(ctx *Context, loc *Location) (complete bool, found bool) {
	fr, _ := loc.ProcessEvent(ctx, Map{"ping": "1"})
	if fr == nil || len(fr.Children) != 1 || len(fr.Children[0].Children) != 1 || len(fr.Children[0].Children[0].Children) != 1 {
		return false, false
	}
	return fr.Children[0].Children[0].Children[0].Disposition == Complete, true
}

// VH_C14_libs: variant 0/1: location A has a working library, location B a library of the
// same name that does not compile (0) or throws when loaded (1); the same action text runs
// in A, then in B. Variant 2/3: one location whose library is replaced by a broken (2) or
// throwing (3) one between two events. Variant 4: B (broken) first, then A. The action in
// the location with the bad library is an error on its node, the other one completes.
func VH_C14_libs(kind, variant int) {
	bad := vhLibBroken
	if variant == 1 || variant == 3 {
		bad = vhLibThrows
	}
	switch variant {
	case 0, 1, 4:
		ctxA, locA := vhC14LibLoc("la", kind, vhLibGood)
		ctxB, locB := vhC14LibLoc("lb", kind, bad)
		if variant == 4 {
			okB, found := vhC14LibRun(ctxB, locB)
			vassert(found && !okB, "failing-script-is-an-error-on-its-node")
		}
		okA, found := vhC14LibRun(ctxA, locA)
		vassert(found && okA, "script-within-limit-unaffected")
		if variant != 4 {
			okB, found := vhC14LibRun(ctxB, locB)
			vassert(found && !okB, "failing-script-is-an-error-on-its-node")
		}
	case 2, 3:
		ctx, loc := vhC14LibLoc("la", kind, vhLibGood)
		ok, found := vhC14LibRun(ctx, loc)
		vassert(found && ok, "script-within-limit-unaffected")
		c := DefaultControl()
		c.Libraries = map[string]string{"checks": bad}
		loc.SetControl(c)
		ok, found = vhC14LibRun(ctx, loc)
		vassert(found && !ok, "failing-script-is-an-error-on-its-node")
	}
	vreach("end")
}

// VH_C14_encoding: an action may state the encoding of its code; "none" and "" mean the
// code is given as it is. Whatever the spelling, a script that throws is an error on its
// node and a script that finishes yields its value.
func VH_C14_encoding(kind, enc, script int) {
	ctx := NewContext("c14enc")
	store, err := NewMemStorage(ctx)
	vassume(err == nil)
	st := vhNewState(ctx, kind, "le", store)
	loc, err := NewLocation(ctx, "le", st, nil)
	vassume(err == nil)
	loc.SetControl(DefaultControl())
	code := []string{"1", "throw 1"}[script]
	action := map[string]interface{}{"code": code}
	switch enc {
	case 1:
		action["opts"] = map[string]interface{}{"encoding": "none"}
	case 2:
		action["opts"] = map[string]interface{}{"encoding": ""}
	}
	_, err = loc.AddRule(ctx, "r", Map{
		"when":   map[string]interface{}{"pattern": map[string]interface{}{"ping": "?n"}},
		"action": action,
	})
	vassume(err == nil)
	ok, found := vhC14LibRun(ctx, loc)
	vassert(found, "rule-dispatched")
	if script == 0 {
		vassert(ok, "script-within-limit-unaffected")
	} else {
		vassert(!ok, "failing-script-is-an-error-on-its-node")
	}
	vreach("end")
}
