package core

// C04 — an event runs each action exactly once per rule and binding result.
//
// Unit: Location.{ProcessEvent,WorkWalk,ExecAction,getActionFunc}, FindRules.Do,
// EvalRule.Do, EvalRuleCondition.Do, ExecRuleAction.Do, RuleDone.Do, PatternQuery.Exec.
// Actions go to the recording harness ActionInterpreter (through the real
// Control.ActionInterpreters dispatch); conditions are pattern queries over 0..2 stored
// facts (so they yield 0..2 bindings); multi-binding when-matches come from an array
// pattern with a variable.
//
//verif:bounds 1..2 rules x 1..2 actions; when {a:?x} or {a:[?x]} against events with 1..2
// array elements; condition none or {pattern:{b:?y}} over 0..2 facts; one action may
// fail; serialActions on/off; both states.

import (
	"strconv"
	"sync"
)

func vhC04Rule(whenArr bool, cond bool, serial bool, codes ...string) Map {
	var when map[string]interface{}
	if whenArr {
		when = map[string]interface{}{"a": []interface{}{"?x"}}
	} else {
		when = map[string]interface{}{"a": "?x"}
	}
	r := vhRule(when, codes...)
	if cond {
		r["condition"] = map[string]interface{}{"pattern": map[string]interface{}{"b": "?y"}}
	}
	if serial {
		r["policies"] = map[string]interface{}{"serialActions": true}
	}
	return r
}

// VH_C04_once: nrules rules with nact actions each; cfg bit0: array when, bit1: condition,
// bit2: serial actions, bit3: first action fails.
func VH_C04_once(kind, nrules, nact, cfg int) {
	whenArr, cond, serial, failing := cfg&1 != 0, cfg&2 != 0, cfg&4 != 0, cfg&8 != 0
	env, in := vhDispatchEnv(kind)
	codes := []string{"a1", "a2"}[:nact]
	if failing {
		in.fail = map[string]bool{"a1": true}
	}
	var ids []string
	for i := 0; i < nrules; i++ {
		id := "r" + strconv.Itoa(i)
		_, err := env.loc.AddRule(env.ctx, id, vhC04Rule(whenArr, cond, serial, codes...))
		vassume(err == nil)
		ids = append(ids, id)
	}
	// facts for the condition: 0..2 facts {b: n}
	var ys []interface{}
	if cond {
		nf := vchoose(3)
		for i := 0; i < nf; i++ {
			y := vsymNum("y"+strconv.Itoa(i), 0, 5)
			_, err := env.loc.AddFact(env.ctx, "f"+strconv.Itoa(i), Map{"b": y})
			vassume(err == nil)
			ys = append(ys, y)
		}
		if len(ys) == 2 {
			vassume(!vdeepEq(ys[0], ys[1])) // distinct condition bindings (the spec is a multiset)
		}
	}
	// the event: scalar or array of 1..2 distinct strings
	var xs []interface{}
	var ev Map
	if whenArr {
		n := 1 + vchoose(2)
		var arr []interface{}
		for i := 0; i < n; i++ {
			s := vsymStrN("e"+strconv.Itoa(i), 3)
			vassume(!IsVariable(s))
			arr = append(arr, s)
		}
		if n == 2 {
			vassume(!vdeepEq(arr[0], arr[1]))
		}
		ev = Map{"a": arr}
		xs = arr
	} else {
		s := vsymStrN("e0", 3)
		vassume(!IsVariable(s))
		ev = Map{"a": s}
		xs = []interface{}{s}
	}
	ysOrNone := ys
	if !cond {
		ysOrNone = []interface{}{nil}
	}

	work, cnd := env.loc.ProcessEvent(env.ctx, ev)

	// expected executions: rule x when-binding x condition-binding x action
	expected := nrules * len(xs) * len(ysOrNone) * nact
	stopEarly := failing && (serial || true)
	_ = stopEarly
	if !failing {
		vassert(cnd == nil, "event-complete")
		vassert(len(in.execs) == expected, "each-action-exactly-once")
	}
	for _, id := range ids {
		for _, x := range xs {
			for _, y := range ysOrNone {
				for _, code := range codes {
					n := int64(0)
					for _, e := range in.execs {
						if e.ruleId != id || e.code != code {
							continue
						}
						same := vdeepEq(e.bindings["?x"], x)
						if cond {
							same = vand(same, vdeepEq(e.bindings["?y"], y))
						}
						n += viteInt(same, 1, 0)
					}
					if !failing {
						vassert(n == 1, "each-action-exactly-once")
					} else {
						vassert(n <= 1, "no-action-twice")
					}
				}
			}
		}
	}
	// every execution saw the standard bindings
	for _, e := range in.execs {
		vassert(vdeepEq(e.bindings["?location"], "here"), "location-visible")
		vassert(e.bindings["?ruleId"] != nil, "ruleId-visible")
		evb, _ := e.bindings["?event"].(map[string]interface{})
		if evb == nil {
			if em, ok := e.bindings["?event"].(Map); ok {
				evb = map[string]interface{}(em)
			}
		}
		vassert(evb != nil && vdeepEq(evb["a"], ev["a"]), "event-visible")
	}
	// the work tree reports exactly these executions
	nodes, complete, failed := 0, 0, 0
	if work != nil {
		for _, er := range work.Children {
			for _, erc := range er.Children {
				for _, era := range erc.Children {
					nodes++
					if era.Disposition == Complete {
						complete++
					} else if era.Disposition != nil {
						failed++
					}
				}
			}
		}
	}
	if !failing {
		vassert(nodes == expected && complete == expected, "work-tree-reports-executions")
		vassert(work != nil && len(work.Values) == expected, "values-list-reports-results")
	} else {
		// a failing action is reported on its own node, never as complete
		ran1 := 0
		for _, e := range in.execs {
			if e.code == "a1" {
				ran1++
			}
		}
		vassert(failed == ran1, "failed-action-has-non-complete-disposition")
		if !serial {
			// the values list reports exactly the completed executions
			vassert(work != nil && len(work.Values) == complete, "values-list-reports-results")
		}
		if serial {
			// with serial actions the walk stops at the failed node and returns it
			vassert(cnd != nil || ran1 == 0, "serial-failure-stops-the-walk")
		}
		if !serial && nact == 2 && work != nil && len(work.Children) > 0 {
			// without serialActions the sibling action of the same binding still ran once
			first := work.Children[0]
			if len(first.Children) > 0 && len(first.Children[0].Children) == 2 {
				sib := first.Children[0].Children[1]
				vassert(sib.Disposition == Complete, "sibling-action-unaffected")
			}
		}
	}
	vreach("end")
}

// vhInterpSync: a recording interpreter that may be called from several goroutines.
type vhInterpSync struct {
	mu    sync.Mutex
	execs []string
}

func (i *vhInterpSync) GetName() string { return "vh" }
func (i *vhInterpSync) GetThunk(ctx *Context, loc *Location, bs Bindings, a Action) (func() (interface{}, error), error) {
	return func() (interface{}, error) {
		code, _ := a.Code.(string)
		i.mu.Lock()
		i.execs = append(i.execs, code)
		i.mu.Unlock()
		return code, nil
	}, nil
}

// VH_C04_conc (concurrency mode): a rule's actions run concurrently unless it asks for
// serial actions; they must not share mutable state (the bindings handed to each
// execution), and each still runs exactly once.
func VH_C04_conc(kind, nact int) {
	env := vhNewEnv(kind)
	in := &vhInterpSync{}
	c := DefaultControl()
	c.ActionInterpreters = map[string]ActionInterpreter{"vh": in}
	env.loc.SetControl(c)
	codes := []string{"a1", "a2", "a3"}[:nact]
	_, err := env.loc.AddRule(env.ctx, "r1", vhRule(map[string]interface{}{"a": "?x"}, codes...))
	vassume(err == nil)
	_, cond := env.loc.ProcessEvent(env.ctx, Map{"a": "1"})
	vassert(cond == nil, "event-complete")
	for _, code := range codes {
		n := 0
		for _, e := range in.execs {
			if e == code {
				n++
			}
		}
		vassert(n == 1, "each-action-exactly-once")
	}
	vreach("end")
}

// VH_C04_dep: the condition depends on the when-binding (pattern {b: ?x}), so it holds for
// some of the event's binding sets and not for others: every binding set is still
// evaluated, and the action runs exactly for those whose condition holds.
func VH_C04_dep(kind, serial int) {
	env, in := vhDispatchEnv(kind)
	r := vhRule(map[string]interface{}{"a": []interface{}{"?x"}}, "a1")
	r["condition"] = map[string]interface{}{"pattern": map[string]interface{}{"b": "?x"}}
	if serial == 1 {
		r["policies"] = map[string]interface{}{"serialActions": true}
	}
	_, err := env.loc.AddRule(env.ctx, "r0", r)
	vassume(err == nil)
	f0 := vsymStrN("f0", 2)
	vassume(!IsVariable(f0))
	_, err = env.loc.AddFact(env.ctx, "f0", Map{"b": f0})
	vassume(err == nil)
	n := 2
	var xs []interface{}
	for i := 0; i < n; i++ {
		s := vsymStrN("e"+strconv.Itoa(i), 2)
		vassume(!IsVariable(s))
		for _, o := range xs {
			vassume(!vdeepEq(s, o))
		}
		xs = append(xs, s)
	}
	_, cnd := env.loc.ProcessEvent(env.ctx, Map{"a": xs})
	vassert(cnd == nil, "event-complete")
	for _, x := range xs {
		got := int64(0)
		for _, e := range in.execs {
			got += viteInt(vdeepEq(e.bindings["?x"], x), 1, 0)
		}
		vassert(got == viteInt(vdeepEq(x, f0), 1, 0), "action-runs-iff-condition-holds-for-the-binding")
	}
	vreach("end")
}

// VH_C04_mixed: one event dispatches a rule that asks for serial actions and a rule
// without any policies whose first action fails. Policies are per rule: the failing
// action of the plain rule neither stops its sibling action nor the other rule, whichever
// rule is walked first (order: which rule is stored first).
func VH_C04_mixed(kind, order int) {
	env, in := vhDispatchEnv(kind)
	in.fail = map[string]bool{"p1": true}
	serialRule := vhC04Rule(false, false, true, "s1", "s2")
	plainRule := vhC04Rule(false, false, false, "p1", "p2")
	if order == 0 {
		_, err := env.loc.AddRule(env.ctx, "rs", serialRule)
		vassume(err == nil)
		_, err = env.loc.AddRule(env.ctx, "rp", plainRule)
		vassume(err == nil)
	} else {
		_, err := env.loc.AddRule(env.ctx, "rp", plainRule)
		vassume(err == nil)
		_, err = env.loc.AddRule(env.ctx, "rs", serialRule)
		vassume(err == nil)
	}
	s := vsymStrN("e0", 3)
	vassume(!IsVariable(s))
	env.loc.ProcessEvent(env.ctx, Map{"a": s})
	for _, code := range []string{"s1", "s2", "p1", "p2"} {
		n := 0
		for _, e := range in.execs {
			if e.code == code {
				n++
			}
		}
		vassert(n == 1, "each-action-exactly-once")
	}
	vreach("end")
}

// VH_C04_std_names (C01/C04): a when-pattern may use a variable that is spelled like one
// of the standard bindings (?location, ?ruleId, ?event). The rule's condition and actions
// see exactly the bindings the match yields: the matched value, not the standard one.
func VH_C04_std_names(kind, which int) {
	env, in := vhDispatchEnv(kind)
	v := []string{"?location", "?ruleId", "?event"}[which]
	r := vhRule(map[string]interface{}{"a": v, "b": "?x"}, "act")
	_, err := env.loc.AddRule(env.ctx, "r1", r)
	vassume(err == nil)
	s, t := vsymStrN("e.a", 3), vsymStrN("e.b", 3)
	vassume(!IsVariable(s) && !IsVariable(t))
	_, cond := env.loc.ProcessEvent(env.ctx, Map{"a": s, "b": t})
	vassert(cond == nil, "event-complete")
	vassert(len(in.execs) == 1, "each-action-exactly-once")
	if len(in.execs) == 1 {
		b := in.execs[0].bindings
		vassert(vdeepEq(b[v], s), "action-sees-exactly-the-match-bindings")
		vassert(vdeepEq(b["?x"], t), "action-sees-exactly-the-match-bindings")
		for i, std := range []string{"?location", "?ruleId", "?event"} {
			if i != which {
				vassert(b[std] != nil, "standard-bindings-visible")
			}
		}
	}
	vreach("end")
}

// VH_C04_body_id: a stored rule whose body carries an "id" of its own (clients round-trip
// rules they listed) that differs from the id it is stored under. Addressed by a trigger!
// event, its action sees the storage id as ruleId, and a one-shot rule retires itself — not
// the bystander that happens to be stored under the body's id.
func VH_C04_body_id(kind, sched int) {
	env, in := vhDispatchEnv(kind)
	_, err := env.loc.AddRule(env.ctx, "zz", vhRule(map[string]interface{}{"never": "?x"}, "bystander"))
	vassume(err == nil)
	var r Map
	if sched == 1 {
		r = Map{"schedule": "+1h", "action": vhAction("act")}
	} else {
		r = vhRule(map[string]interface{}{"trigger!": "?x"}, "act")
	}
	r["id"] = "zz"
	_, err = env.loc.AddRule(env.ctx, "r1", r)
	vassume(err == nil)
	env.loc.ProcessEvent(env.ctx, Map{"trigger!": "r1"})
	vassert(len(in.execs) == 1, "each-action-exactly-once")
	if len(in.execs) == 1 {
		vassert(in.execs[0].ruleId == "r1", "ruleId-visible")
	}
	_, gerr := env.loc.GetRule(env.ctx, "zz")
	vassert(gerr == nil, "other-rules-untouched")
	if sched == 1 {
		_, gerr = env.loc.GetRule(env.ctx, "r1")
		vassert(gerr != nil, "one-shot-rule-retired")
	}
	vreach("end")
}

// vhMutInterp: an action interpreter whose action "mut" changes what it was given as the
// event (a map nested in an array, an array element, a nested map value) and whose action
// "obs" records what it sees there.
type vhMutInterp struct {
	seen []string
}

func (i *vhMutInterp) GetName() string { return "vhmut" }
func (i *vhMutInterp) GetThunk(ctx *Context, loc *Location, bs Bindings, a Action) (func() (interface{}, error), error) {
	return func() (interface{}, error) {
		code, _ := a.Code.(string)
		var ev map[string]interface{}
		switch e := bs["?event"].(type) {
		case map[string]interface{}:
			ev = e
		case Map:
			ev = map[string]interface{}(e)
		}
		if ev == nil {
			return nil, NewSyntaxError("no event")
		}
		items, _ := ev["items"].([]interface{})
		sub, _ := ev["sub"].(map[string]interface{})
		if len(items) != 2 || sub == nil {
			return nil, NewSyntaxError("unexpected event")
		}
		inner, _ := items[1].(map[string]interface{})
		if inner == nil {
			return nil, NewSyntaxError("unexpected event")
		}
		if code == "mut" {
			items[0] = "changed"
			inner["k"] = "changed"
			sub["k"] = "changed"
			return "mutated", nil
		}
		s0, _ := items[0].(string)
		s1, _ := inner["k"].(string)
		s2, _ := sub["k"].(string)
		i.seen = append(i.seen, s0+"/"+s1+"/"+s2)
		return "observed", nil
	}, nil
}

// VH_C04_event_copy: every execution gets the event as it was sent: what one action does to
// its event (also inside arrays) is invisible to the rule's other action and to the caller.
func VH_C04_event_copy(kind int) {
	env := vhNewEnv(kind)
	in := &vhMutInterp{}
	c := DefaultControl()
	c.ActionInterpreters = map[string]ActionInterpreter{"vhmut": in}
	env.loc.SetControl(c)
	r := Map{
		"when":     map[string]interface{}{"pattern": map[string]interface{}{"a": "?x"}},
		"policies": map[string]interface{}{"serialActions": true},
		"actions": []interface{}{
			map[string]interface{}{"endpoint": "vhmut", "code": "mut"},
			map[string]interface{}{"endpoint": "vhmut", "code": "obs"},
		},
	}
	_, err := env.loc.AddRule(env.ctx, "r", r)
	vassume(err == nil)
	v := vsymStrN("orig", 3)
	vassume(v != "changed")
	ev := Map{"a": "1", "items": []interface{}{v, map[string]interface{}{"k": v}}, "sub": map[string]interface{}{"k": v}}
	env.loc.ProcessEvent(env.ctx, ev)
	vassert(len(in.seen) == 1, "each-action-exactly-once")
	if len(in.seen) == 1 {
		vassert(in.seen[0] == v+"/"+v+"/"+v, "one-execution-does-not-alter-another")
	}
	vreach("end")
}
