package core

// C12 — concurrent requests to one location are atomic.
//
// Unit: State-level Add/Rem/Get/Search/FindCachedRules on one IndexedState/LinearState
// from two goroutines. The engine's concurrency mode makes every synchronisation
// operation a scheduling point (bounded preemptions), so each explored path is one
// schedule; a vector-clock (happens-before) monitor reports conflicting accesses to a
// memory cell or a map that no mutex, channel, WaitGroup or atomic orders.
//
//verif:bounds 2 goroutines x 1 operation each on shared ids; preemption bound 2.

import (
	"strconv"
	"sync"
)

func vhC12Op(env *vhEnv, op int, who string) (string, error) {
	switch op {
	case 0:
		return env.state.Add(env.ctx, "x", Map{"a": who})
	case 1:
		_, err := env.state.Rem(env.ctx, "x")
		return "", err
	case 2:
		m, err := env.state.Get(env.ctx, "x")
		if err != nil {
			return "", err
		}
		s, _ := m["a"].(string)
		return s, nil
	case 3:
		srs, err := env.state.Search(env.ctx, Map{"a": "?v"})
		if err != nil {
			return "", err
		}
		if len(srs.Found) == 0 {
			return "none", nil
		}
		return "some", nil
	case 4:
		_, err := env.state.Add(env.ctx, "r", vhRuleFact(map[string]interface{}{"a": "?x"}))
		return "", err
	case 5:
		rs, err := env.state.FindCachedRules(env.ctx, Map{"a": "1"})
		if err != nil {
			return "", err
		}
		if len(rs) == 0 {
			return "none", nil
		}
		return "some", nil
	case 6: // remove the rule
		_, err := env.state.Rem(env.ctx, "r")
		return "", err
	case 8: // replace rule r by a rule with the same pattern and another action
		rf := vhRuleFact(map[string]interface{}{"a": "?x"})
		rf["rule"].(map[string]interface{})["action"] = map[string]interface{}{"code": "2"}
		_, err := env.state.Add(env.ctx, "r", rf)
		return "", err
	case 7: // uncached rule lookup for an event that matches rule r
		rs, err := env.state.FindRules(env.ctx, Map{"a": "1"})
		if err != nil {
			return "", err
		}
		if len(rs) == 0 {
			return "none", nil
		}
		return "some", nil
	}
	vassume(false)
	return "", nil
}

// VH_C12_pair: operations opA and opB run concurrently on a state that already holds a
// fact and a rule; no race, no deadlock, no crash.
func VH_C12_pair(kind, opA, opB int) {
	env := vhNewEnv(kind)
	_, err := env.state.Add(env.ctx, "x", Map{"a": "0"})
	vassume(err == nil)
	_, err = env.state.Add(env.ctx, "r", vhRuleFact(map[string]interface{}{"a": "?x"}))
	vassume(err == nil)
	// warm the rule cache so that cached *Rule values are shared
	_, err = env.state.FindCachedRules(env.ctx, Map{"a": "1"})
	vassume(err == nil)

	var wg sync.WaitGroup
	wg.Add(2)
	ctxA, ctxB := env.ctx.SubContext(), env.ctx.SubContext()
	ea := &vhEnv{kind: kind, ctx: ctxA, store: env.store, state: env.state, loc: env.loc, name: env.name}
	eb := &vhEnv{kind: kind, ctx: ctxB, store: env.store, state: env.state, loc: env.loc, name: env.name}
	var ra, rb string
	var errA, errB error
	go func() {
		ra, errA = vhC12Op(ea, opA, "A")
		wg.Done()
	}()
	go func() {
		rb, errB = vhC12Op(eb, opB, "B")
		wg.Done()
	}()
	wg.Wait()
	_, _, _, _ = ra, rb, errA, errB
	vreach("end")
}

func vhC12Setup(kind int) *vhEnv {
	env := vhNewEnv(kind)
	_, err := env.state.Add(env.ctx, "x", Map{"a": "0"})
	vassume(err == nil)
	_, err = env.state.Add(env.ctx, "r", vhRuleFact(map[string]interface{}{"a": "?x"}))
	vassume(err == nil)
	_, err = env.state.FindCachedRules(env.ctx, Map{"a": "1"})
	vassume(err == nil)
	return env
}

func vhC12Res(r string, err error) string {
	if err != nil {
		return "E"
	}
	return "ok:" + r
}

// vhC12Final renders what a later client observes: the live state and the state rebuilt
// from storage alone.
func vhC12Final(env *vhEnv) string {
	out := ""
	for pass := 0; pass < 2; pass++ {
		e := env
		if pass == 1 {
			e = vhOpenEnv(env.kind, env.ctx, env.store, env.name)
		}
		if m, err := e.state.Get(e.ctx, "x"); err != nil {
			out += "x=nf;"
		} else {
			s, _ := m["a"].(string)
			out += "x=" + s + ";"
		}
		if _, err := e.state.Get(e.ctx, "r"); err != nil {
			out += "r=nf;"
		} else {
			out += "r=ok;"
		}
		rs, err := e.state.FindCachedRules(e.ctx, Map{"a": "1"})
		if err != nil {
			out += "rules=E;"
		} else {
			out += "rules=" + strconv.Itoa(len(rs)) + ";"
			// which version of rule r later events will run
			if r := rs["r"]; r != nil && len(r.Actions) == 1 {
				c, _ := r.Actions[0].Code.(string)
				out += "code=" + c + ";"
			}
		}
		srs, err := e.state.Search(e.ctx, Map{"a": "?v"})
		if err != nil {
			out += "search=E|"
		} else {
			out += "search=" + strconv.Itoa(len(srs.Found)) + "|"
		}
	}
	return out
}

// vhC12Seq: the outcome of running first then second, alone, on a fresh copy.
func vhC12Seq(kind, opA, opB int, aFirst bool) string {
	env := vhC12Setup(kind)
	var ra, rb string
	var errA, errB error
	if aFirst {
		ra, errA = vhC12Op(env, opA, "A")
		rb, errB = vhC12Op(env, opB, "B")
	} else {
		rb, errB = vhC12Op(env, opB, "B")
		ra, errA = vhC12Op(env, opA, "A")
	}
	return vhC12Res(ra, errA) + "/" + vhC12Res(rb, errB) + "/" + vhC12Final(env)
}

// VH_C12_lin: the results of two concurrent operations and the final live and stored
// states are those of one of the two sequential orders (both respect real time, since the
// operations overlap).
func VH_C12_lin(kind, opA, opB int) {
	env := vhC12Setup(kind)
	var wg sync.WaitGroup
	wg.Add(2)
	ea := &vhEnv{kind: kind, ctx: env.ctx.SubContext(), store: env.store, state: env.state, loc: env.loc, name: env.name}
	eb := &vhEnv{kind: kind, ctx: env.ctx.SubContext(), store: env.store, state: env.state, loc: env.loc, name: env.name}
	var ra, rb string
	var errA, errB error
	go func() {
		ra, errA = vhC12Op(ea, opA, "A")
		wg.Done()
	}()
	go func() {
		rb, errB = vhC12Op(eb, opB, "B")
		wg.Done()
	}()
	wg.Wait()
	got := vhC12Res(ra, errA) + "/" + vhC12Res(rb, errB) + "/" + vhC12Final(env)
	ab := vhC12Seq(kind, opA, opB, true)
	ba := vhC12Seq(kind, opA, opB, false)
	if got != ab && got != ba {
		println("GOT", got, "AB", ab, "BA", ba)
	}
	vassert(got == ab || got == ba, "outcome-explained-by-a-sequential-order")
	vreach("end")
}

// VH_C12_events: two clients send an event to the same location at the same time; the
// rule they both match is served from the state's rule cache (shared). No race, no
// deadlock, and each event runs the rule's action exactly once.
func VH_C12_events(kind int) {
	env := vhNewEnv(kind)
	in := &vhInterpSync{}
	c := DefaultControl()
	c.ActionInterpreters = map[string]ActionInterpreter{"vh": in}
	env.loc.SetControl(c)
	_, err := env.loc.AddRule(env.ctx, "r1", vhRule(map[string]interface{}{"a": "?x"}, "act"))
	vassume(err == nil)
	// warm the rule cache
	_, cond := env.loc.ProcessEvent(env.ctx, Map{"a": "0"})
	vassume(cond == nil)
	var wg sync.WaitGroup
	wg.Add(2)
	var c1, c2 *Condition
	ctx1, ctx2 := env.ctx.SubContext(), env.ctx.SubContext()
	go func() {
		_, c1 = env.loc.ProcessEvent(ctx1, Map{"a": "1"})
		wg.Done()
	}()
	go func() {
		_, c2 = env.loc.ProcessEvent(ctx2, Map{"a": "2"})
		wg.Done()
	}()
	wg.Wait()
	vassert(c1 == nil && c2 == nil, "event-complete")
	vassert(len(in.execs) == 3, "each-event-runs-the-rule-once")
	vreach("end")
}

// VH_C12_event_vs: one client's event concurrent with another client's write to the same
// location: no race, no deadlock, no crash; the event completes, and runs the matching
// rule at most once (exactly once when the write does not remove or disable it).
// op: 0 AddRule r1 again (same rule), 1 RemRule r1, 2 AddFact, 3 EnableRule(r1,false),
// 4 Clear, 5 AddRule of another rule r2 that matches too.
func VH_C12_event_vs(kind, op int) {
	env := vhNewEnv(kind)
	in := &vhInterpSync{}
	c := DefaultControl()
	c.ActionInterpreters = map[string]ActionInterpreter{"vh": in}
	env.loc.SetControl(c)
	rule := vhRule(map[string]interface{}{"a": "?x"}, "act")
	_, err := env.loc.AddRule(env.ctx, "r1", rule)
	vassume(err == nil)
	_, cond := env.loc.ProcessEvent(env.ctx, Map{"a": "0"}) // warm the rule cache
	vassume(cond == nil)
	var wg sync.WaitGroup
	wg.Add(2)
	var c1 *Condition
	var werr error
	ctx1, ctx2 := env.ctx.SubContext(), env.ctx.SubContext()
	go func() {
		_, c1 = env.loc.ProcessEvent(ctx1, Map{"a": "1"})
		wg.Done()
	}()
	go func() {
		switch op {
		case 0:
			_, werr = env.loc.AddRule(ctx2, "r1", vhRule(map[string]interface{}{"a": "?x"}, "act"))
		case 1:
			_, werr = env.loc.RemRule(ctx2, "r1")
		case 2:
			_, werr = env.loc.AddFact(ctx2, "f", Map{"k": "v"})
		case 3:
			werr = env.loc.EnableRule(ctx2, "r1", false)
		case 4:
			werr = env.loc.Clear(ctx2)
		case 5:
			_, werr = env.loc.AddRule(ctx2, "r2", vhRule(map[string]interface{}{"a": "?y"}, "act2"))
		}
		wg.Done()
	}()
	wg.Wait()
	vassert(werr == nil, "write-succeeds")
	vassert(c1 == nil, "event-complete")
	n1 := 0
	for _, e := range in.execs[1:] {
		if e == "act" {
			n1++
		}
	}
	switch op {
	case 0, 2, 5:
		vassert(n1 == 1, "each-event-runs-the-rule-once")
	default:
		vassert(n1 <= 1, "each-event-runs-the-rule-once")
	}
	vreach("end")
}

// ---- expiry observed by concurrent readers -------------------------------------------
//
// The fact x and the rule r carry an expiry that has passed when the two clients start:
// whichever read notices it purges the item. Purging is a write (maps, indexes, storage)
// and must be ordered like one.

func vhC12SetupExp(kind int) *vhEnv {
	env := vhNewEnv(kind)
	t0 := int64(1600000000)
	vsetNow(t0 * 1000000000)
	_, err := env.state.Add(env.ctx, "x", Map{"a": "0", "expires": float64(t0 + 10)})
	vassume(err == nil)
	rf := vhRuleFact(map[string]interface{}{"a": "?x"})
	rf["expires"] = float64(t0 + 10)
	_, err = env.state.Add(env.ctx, "r", rf)
	vassume(err == nil)
	_, err = env.state.FindCachedRules(env.ctx, Map{"a": "1"})
	vassume(err == nil)
	vsetNow((t0 + 20) * 1000000000)
	return env
}

// VH_C12_expiring_pair: no race, deadlock or crash between two clients of which at least
// one observes (and so purges) the expired items.
func VH_C12_expiring_pair(kind, opA, opB int) {
	env := vhC12SetupExp(kind)
	var wg sync.WaitGroup
	wg.Add(2)
	ea := &vhEnv{kind: kind, ctx: env.ctx.SubContext(), store: env.store, state: env.state, loc: env.loc, name: env.name}
	eb := &vhEnv{kind: kind, ctx: env.ctx.SubContext(), store: env.store, state: env.state, loc: env.loc, name: env.name}
	go func() {
		vhC12Op(ea, opA, "A")
		wg.Done()
	}()
	go func() {
		vhC12Op(eb, opB, "B")
		wg.Done()
	}()
	wg.Wait()
	vreach("end")
}

func vhC12SeqExp(kind, opA, opB int, aFirst bool) string {
	env := vhC12SetupExp(kind)
	var ra, rb string
	var errA, errB error
	if aFirst {
		ra, errA = vhC12Op(env, opA, "A")
		rb, errB = vhC12Op(env, opB, "B")
	} else {
		rb, errB = vhC12Op(env, opB, "B")
		ra, errA = vhC12Op(env, opA, "A")
	}
	return vhC12Res(ra, errA) + "/" + vhC12Res(rb, errB) + "/" + vhC12Final(env)
}

// VH_C12_expiring_lin: the outcome is that of a sequential order — in particular a read
// that notices the expiry of x never deletes what a concurrent client has just written
// under x.
func VH_C12_expiring_lin(kind, opA, opB int) {
	env := vhC12SetupExp(kind)
	var wg sync.WaitGroup
	wg.Add(2)
	ea := &vhEnv{kind: kind, ctx: env.ctx.SubContext(), store: env.store, state: env.state, loc: env.loc, name: env.name}
	eb := &vhEnv{kind: kind, ctx: env.ctx.SubContext(), store: env.store, state: env.state, loc: env.loc, name: env.name}
	var ra, rb string
	var errA, errB error
	go func() {
		ra, errA = vhC12Op(ea, opA, "A")
		wg.Done()
	}()
	go func() {
		rb, errB = vhC12Op(eb, opB, "B")
		wg.Done()
	}()
	wg.Wait()
	got := vhC12Res(ra, errA) + "/" + vhC12Res(rb, errB) + "/" + vhC12Final(env)
	ab := vhC12SeqExp(kind, opA, opB, true)
	ba := vhC12SeqExp(kind, opA, opB, false)
	if got != ab && got != ba {
		println("GOT", got, "AB", ab, "BA", ba)
	}
	vassert(got == ab || got == ba, "outcome-explained-by-a-sequential-order")
	vreach("end")
}

// ---- cold rule cache -----------------------------------------------------------------
//
// As VH_C12_pair / VH_C12_lin, but nobody has asked for rule r yet: the first dispatch
// parses it and fills the state's rule cache while the other client works on the state.

func vhC12SetupCold(kind int) *vhEnv {
	env := vhNewEnv(kind)
	_, err := env.state.Add(env.ctx, "x", Map{"a": "0"})
	vassume(err == nil)
	_, err = env.state.Add(env.ctx, "r", vhRuleFact(map[string]interface{}{"a": "?x"}))
	vassume(err == nil)
	return env
}

func vhC12SeqCold(kind, opA, opB int, aFirst bool) string {
	env := vhC12SetupCold(kind)
	var ra, rb string
	var errA, errB error
	if aFirst {
		ra, errA = vhC12Op(env, opA, "A")
		rb, errB = vhC12Op(env, opB, "B")
	} else {
		rb, errB = vhC12Op(env, opB, "B")
		ra, errA = vhC12Op(env, opA, "A")
	}
	return vhC12Res(ra, errA) + "/" + vhC12Res(rb, errB) + "/" + vhC12Final(env)
}

func VH_C12_cold_lin(kind, opA, opB int) {
	env := vhC12SetupCold(kind)
	var wg sync.WaitGroup
	wg.Add(2)
	ea := &vhEnv{kind: kind, ctx: env.ctx.SubContext(), store: env.store, state: env.state, loc: env.loc, name: env.name}
	eb := &vhEnv{kind: kind, ctx: env.ctx.SubContext(), store: env.store, state: env.state, loc: env.loc, name: env.name}
	var ra, rb string
	var errA, errB error
	go func() {
		ra, errA = vhC12Op(ea, opA, "A")
		wg.Done()
	}()
	go func() {
		rb, errB = vhC12Op(eb, opB, "B")
		wg.Done()
	}()
	wg.Wait()
	got := vhC12Res(ra, errA) + "/" + vhC12Res(rb, errB) + "/" + vhC12Final(env)
	ab := vhC12SeqCold(kind, opA, opB, true)
	ba := vhC12SeqCold(kind, opA, opB, false)
	if got != ab && got != ba {
		println("GOT", got, "AB", ab, "BA", ba)
	}
	vassert(got == ab || got == ba, "outcome-explained-by-a-sequential-order")
	vreach("end")
}

// ---- rules that carry an expiry ----------------------------------------------------------
//
// The rule r is stored in fact form with a top-level expiry far in the future (so nothing
// expires): every lookup hands out the rule body together with that expiry. Lookups are
// reads; two of them at once, or one next to any other operation, must not write shared
// state.

func VH_C12_live_expiry_pair(kind, opA, opB int) {
	env := vhNewEnv(kind)
	t0 := int64(1600000000)
	vsetNow(t0 * 1000000000)
	_, err := env.state.Add(env.ctx, "x", Map{"a": "0"})
	vassume(err == nil)
	rf := vhRuleFact(map[string]interface{}{"a": "?x"})
	rf["expires"] = float64(t0 + 100000)
	_, err = env.state.Add(env.ctx, "r", rf)
	vassume(err == nil)
	var wg sync.WaitGroup
	wg.Add(2)
	ea := &vhEnv{kind: kind, ctx: env.ctx.SubContext(), store: env.store, state: env.state, loc: env.loc, name: env.name}
	eb := &vhEnv{kind: kind, ctx: env.ctx.SubContext(), store: env.store, state: env.state, loc: env.loc, name: env.name}
	go func() {
		vhC12Op(ea, opA, "A")
		wg.Done()
	}()
	go func() {
		vhC12Op(eb, opB, "B")
		wg.Done()
	}()
	wg.Wait()
	vreach("end")
}
