package core

// Location-level dispatch harness shared by C01-O3, C04 and C10: real Location over real
// state and MemStorage; actions go to a harness ActionInterpreter (registered through
// Control.ActionInterpreters, so the real dispatch in getActionFunc/ExecAction is used)
// that records every execution.

type vhExec struct {
	ruleId   string
	code     string
	bindings map[string]interface{}
	ctxLoc   string // the location the action's environment is bound to (ctx.GetLoc())
	argLoc   string // the location handed to the interpreter
}

type vhInterp struct {
	execs []vhExec
	fail  map[string]bool // action codes that fail
}

func (i *vhInterp) GetName() string { return "vh" }
func (i *vhInterp) GetThunk(ctx *Context, loc *Location, bs Bindings, a Action) (func() (interface{}, error), error) {
	return func() (interface{}, error) {
		code, _ := a.Code.(string)
		rid, _ := bs["?ruleId"].(string)
		e := vhExec{ruleId: rid, code: code, bindings: vsnapshot(map[string]interface{}(bs)).(map[string]interface{})}
		if l := ctx.GetLoc(); l != nil {
			e.ctxLoc = l.Name
		}
		if loc != nil {
			e.argLoc = loc.Name
		}
		i.execs = append(i.execs, e)
		if i.fail != nil && i.fail[code] {
			return nil, NewSyntaxError("action failed: " + code)
		}
		return code, nil
	}, nil
}

// vhDispatchEnv: a location whose rules' actions are recorded.
func vhDispatchEnv(kind int) (*vhEnv, *vhInterp) {
	env := vhNewEnv(kind)
	in := &vhInterp{}
	vhInstallInterp(env, in)
	return env, in
}

func vhInstallInterp(env *vhEnv, in *vhInterp) {
	c := DefaultControl()
	c.ActionInterpreters = map[string]ActionInterpreter{"vh": in}
	env.loc.SetControl(c)
}

func vhAction(code string) map[string]interface{} {
	return map[string]interface{}{"endpoint": "vh", "code": code}
}

// vhRule: a rule with the given when-pattern and one action per code.
func vhRule(when map[string]interface{}, codes ...string) Map {
	r := Map{"when": map[string]interface{}{"pattern": when}}
	if len(codes) == 1 {
		r["action"] = vhAction(codes[0])
	} else {
		var as []interface{}
		for _, c := range codes {
			as = append(as, vhAction(c))
		}
		r["actions"] = as
	}
	return r
}

// vhFired: how often rule id executed action code (a symbolic count: ids may be symbolic).
func vhFired(in *vhInterp, id string, code string) int64 {
	n := int64(0)
	for _, e := range in.execs {
		if e.code == code {
			n += viteInt(e.ruleId == id, 1, 0)
		}
	}
	return n
}

// VH_dispatch_smoke: one rule, one event (engine self-check of the dispatch path).
func VH_dispatch_smoke(kind int) {
	env, in := vhDispatchEnv(kind)
	when := map[string]interface{}{"a": "?x"}
	id, err := env.loc.AddRule(env.ctx, "r1", vhRule(when, "act1"))
	vassert(err == nil, "addrule-ok")
	vassert(id == "r1", "id-kept")
	ev := Map{"a": vsymStrN("e.v", 4)}
	_, cond := env.loc.ProcessEvent(env.ctx, ev)
	vassert(cond == nil, "event-complete")
	vassert(vhFired(in, "r1", "act1") == 1, "fired-once")
	if len(in.execs) == 1 {
		vassert(vdeepEq(in.execs[0].bindings["?x"], ev["a"]), "binding-visible")
	}
	vreach("end")
}
