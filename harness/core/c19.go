package core

// C19 — access controls and enablement are enforced on every path.
//
// Unit: every mutating / disclosing method of Location, CheckWrite, CheckRead,
// Enabled, IsReadOnly. The State is a harness implementation of core.State that
// serves the !writeKey / !readKey / !enabled property facts with symbolic values and
// records every mutating call and every disclosure (ghost counters).
//
//verif:bounds one operation per path from the op table; property values, caller keys
// and ReadOnly are symbolic (so "no key", "wrong key", "right key", "empty key" are all
// decided by the solver); strings len <= 6.

type vhState struct {
	wk, rk, en          string // property values
	hasWK, hasRK, hasEN bool
	mutations           int
	disclosures         int
	parents             []string
}

func (s *vhState) Count(ctx *Context) int  { return 0 }
func (s *vhState) AddHook(hook AddHookFn)  {}
func (s *vhState) RemHook(hook RemHookFn)  {}
func (s *vhState) Load(ctx *Context) error { return nil }
func (s *vhState) Add(ctx *Context, id string, x Map) (string, error) {
	s.mutations++
	if id == "" {
		id = "gen"
	}
	return id, nil
}
func (s *vhState) Rem(ctx *Context, id string) (bool, error) { s.mutations++; return true, nil }
func (s *vhState) Delete(ctx *Context) error                 { s.mutations++; return nil }
func (s *vhState) Clear(ctx *Context) error                  { s.mutations++; return nil }
func (s *vhState) Get(ctx *Context, id string) (Map, error)  { return s.get(ctx, id, true) }
func (s *vhState) get(ctx *Context, id string, getLock bool) (Map, error) {
	switch id {
	case "!.writeKey":
		if s.hasWK {
			return Map{"!writeKey": s.wk}, nil
		}
		return nil, NewNotFoundError(id)
	case "!.readKey":
		if s.hasRK {
			return Map{"!readKey": s.rk}, nil
		}
		return nil, NewNotFoundError(id)
	case "!.enabled":
		if s.hasEN {
			return Map{"!enabled": s.en}, nil
		}
		return nil, NewNotFoundError(id)
	case "!.parents":
		// internal read of the parent list: nothing is handed to the caller
		if s.parents != nil {
			return Map{"!parents": s.parents}, nil
		}
		return nil, NewNotFoundError(id)
	}
	if IdProperty(id) {
		return nil, NewNotFoundError(id)
	}
	s.disclosures++
	return Map{"rule": map[string]interface{}{"when": map[string]interface{}{"pattern": map[string]interface{}{"a": "b"}}}}, nil
}
func (s *vhState) Search(ctx *Context, pattern Map) (*SearchResults, error) {
	s.disclosures++
	return &SearchResults{Found: []SearchResult{}}, nil
}
func (s *vhState) FindRules(ctx *Context, event Map) (map[string]Map, error) {
	s.disclosures++
	return map[string]Map{}, nil
}
func (s *vhState) FindCachedRules(ctx *Context, event Map) (map[string]*Rule, error) {
	s.disclosures++
	return map[string]*Rule{}, nil
}

const (
	vhOpAddFact = iota
	vhOpRemFact
	vhOpAddRule
	vhOpRemRule
	vhOpEnableRule
	vhOpSetParents
	vhOpClear
	vhOpDelete
	vhOpGetFact
	vhOpGetRule
	vhOpSearchFacts
	vhOpSearchFactsInherited
	vhOpSearchRules
	vhOpSearchRulesInherited
	vhOpListRules
	vhOpStateSize
	vhOpProcessEvent
	vhOpCount
)

func vhIsMutating(op int) bool { return op <= vhOpDelete }

func vhRuleMap() Map {
	return Map{"when": map[string]interface{}{"pattern": map[string]interface{}{"a": "?x"}},
		"action": map[string]interface{}{"code": "1"}}
}

// vhDoOp performs one Location operation; returns its error.
func vhDoOp(ctx *Context, loc *Location, op int) error {
	var err error
	switch op {
	case vhOpAddFact:
		_, err = loc.AddFact(ctx, "f1", Map{"a": "b"})
	case vhOpRemFact:
		_, err = loc.RemFact(ctx, "f1")
	case vhOpAddRule:
		_, err = loc.AddRule(ctx, "r1", vhRuleMap())
	case vhOpRemRule:
		_, err = loc.RemRule(ctx, "r1")
	case vhOpEnableRule:
		err = loc.EnableRule(ctx, "r1", vsymBool("enable"))
	case vhOpSetParents:
		_, err = loc.SetParents(ctx, []string{"parent"})
	case vhOpClear:
		err = loc.Clear(ctx)
	case vhOpDelete:
		err = loc.Delete(ctx)
	case vhOpGetFact:
		_, err = loc.GetFact(ctx, "f1")
	case vhOpGetRule:
		_, err = loc.GetRule(ctx, "r1")
	case vhOpSearchFacts:
		_, err = loc.SearchFacts(ctx, Map{"a": "?x"}, false)
	case vhOpSearchFactsInherited:
		_, err = loc.SearchFacts(ctx, Map{"a": "?x"}, true)
	case vhOpSearchRules:
		_, err = loc.SearchRules(ctx, Map{"a": "b"}, false)
	case vhOpSearchRulesInherited:
		_, err = loc.SearchRules(ctx, Map{"a": "b"}, true)
	case vhOpListRules:
		_, err = loc.ListRules(ctx, false)
	case vhOpStateSize:
		_, err = loc.StateSize(ctx)
	case vhOpProcessEvent:
		_, cond := loc.ProcessEvent(ctx, Map{"a": "b"})
		if cond != nil {
			err = cond
		}
	default:
		vassume(false)
	}
	return err
}

func vhProtectedState() *vhState {
	st := &vhState{}
	if vchoose(2) == 1 {
		st.hasWK = true
		st.wk = vsymStrN("prop.writeKey", 6)
	}
	if vchoose(2) == 1 {
		st.hasRK = true
		st.rk = vsymStrN("prop.readKey", 6)
	}
	if vchoose(2) == 1 {
		st.hasEN = true
		st.en = vsymStrN("prop.enabled", 6)
	}
	return st
}

// VH_C19_gate: one operation against an arbitrary protection state and caller context.
func VH_C19_gate(op int) {
	st := vhProtectedState()
	ctx := NewContext("c19")
	loc, err := NewLocation(ctx, "here", st, nil)
	vassume(err == nil)
	loc.ReadOnly = vsymBool("readOnly")
	ctx.WriteKey = vsymStrN("ctx.writeKey", 6)
	ctx.ReadKey = vsymStrN("ctx.readKey", 6)

	writeOK := vand(!loc.ReadOnly, vor(vor(!st.hasWK, st.wk == ""), ctx.WriteKey == st.wk))
	readOK := vor(vor(!st.hasRK, st.rk == ""), ctx.ReadKey == st.rk)
	enabled := vor(!st.hasEN, vor(st.en == "", vor(st.en == "yes", st.en == "true")))

	m0, d0 := st.mutations, st.disclosures
	err = vhDoOp(ctx, loc, op)
	mutated := st.mutations > m0
	disclosed := st.disclosures > d0

	vassert(vimplies(mutated, vand(writeOK, enabled)), "mutation-only-with-write-access")
	vassert(vimplies(disclosed, readOK), "disclosure-only-with-read-access")
	if vhIsMutating(op) {
		vassert(vimplies(vnot(vand(writeOK, enabled)), err != nil), "refused-mutation-reports-error")
		// with the right keys behaviour is that of an unprotected location
		vassert(vimplies(vand(writeOK, enabled), vand(err == nil, mutated)), "permitted-mutation-proceeds")
	} else {
		// C19 speaks about read keys only for disclosing operations (what a disabled
		// location answers to reads is C10's subject)
		vassert(vimplies(vnot(readOK), err != nil), "refused-read-reports-error")
		vassert(vimplies(vand(readOK, enabled), err == nil), "permitted-read-proceeds")
	}
	vreach("end")
}

// VH_C19_parent: an unprotected child whose parent is protected. Whatever the child
// inherits from the parent is a disclosure of the parent's facts or rules, so it needs the
// parent's read key and an enabled parent; the caller holds every right on the child.
// op 0 inherited fact search, 1 inherited rule search, 2 event processing, 3 list rules
// inherited, 4 condition query over the child's ancestors.
func VH_C19_parent(op int) {
	up := vhProtectedState()
	here := &vhState{parents: []string{"up"}}
	ctx := NewContext("c19")
	reg := map[string]*Location{}
	prov := NewSimpleLocationProvider(reg)
	child, err := NewLocation(ctx, "here", here, nil)
	vassume(err == nil)
	parent, err := NewLocation(ctx, "up", up, nil)
	vassume(err == nil)
	child.Provider, parent.Provider = prov, prov
	reg["here"], reg["up"] = child, parent
	ctx.WriteKey = vsymStrN("ctx.writeKey", 6)
	ctx.ReadKey = vsymStrN("ctx.readKey", 6)

	readOK := vor(vor(!up.hasRK, up.rk == ""), ctx.ReadKey == up.rk)
	enabled := vor(!up.hasEN, vor(up.en == "", vor(up.en == "yes", up.en == "true")))

	d0, m0 := up.disclosures, up.mutations
	switch op {
	case 0:
		_, err = child.SearchFacts(ctx, Map{"a": "?x"}, true)
	case 1:
		_, err = child.SearchRules(ctx, Map{"a": "b"}, true)
	case 2:
		_, cond := child.ProcessEvent(ctx, Map{"a": "b"})
		err = nil
		if cond != nil {
			err = cond
		}
	case 3:
		_, err = child.ListRules(ctx, true)
	case 4:
		q := PatternQuery{Pattern: map[string]interface{}{"a": "?x"}}
		_, err = ExecQuery(ctx, q, child, QueryContext{}, QueryResult{Bss: []Bindings{{}}})
	default:
		vassume(false)
	}
	disclosed := up.disclosures > d0
	vassert(vimplies(disclosed, vand(readOK, enabled)), "inherited-disclosure-only-with-parent-read-access")
	vassert(up.mutations == m0, "parent-not-mutated")
	vassert(vimplies(vand(readOK, enabled), disclosed), "permitted-inherited-read-reaches-parent")
	_ = err
	vreach("end")
}

// VH_C19_explicit: protection established on a real state by adding the property fact
// under an id the caller chose (AddFact("lock", {"!writeKey": K})) protects the location
// exactly as when it is set through the property API. prop 0 writeKey, 1 readKey,
// 2 enabled="no".
func VH_C19_explicit(kind, prop int) {
	env := vhNewEnv(kind)
	_, err := env.loc.AddFact(env.ctx, "f1", Map{"a": "b"})
	vassume(err == nil)
	key := vsymStrN("prop.key", 4)
	vassume(key != "")
	var pf Map
	switch prop {
	case 0:
		pf = Map{"!writeKey": key}
	case 1:
		pf = Map{"!readKey": key}
	case 2:
		pf = Map{"!enabled": "no"}
	}
	_, err = env.loc.AddFact(env.ctx, "lock", pf)
	vassume(err == nil)
	ctx := NewContext("caller")
	ctx.WriteKey = vsymStrN("ctx.writeKey", 4)
	ctx.ReadKey = vsymStrN("ctx.readKey", 4)
	_, werr := env.loc.AddFact(ctx, "f2", Map{"a": "c"})
	_, rerr := env.loc.GetFact(ctx, "f1")
	switch prop {
	case 0:
		vassert((werr == nil) == (ctx.WriteKey == key), "mutation-only-with-write-access")
		vassert(rerr == nil, "permitted-read-proceeds")
	case 1:
		vassert((rerr == nil) == (ctx.ReadKey == key), "disclosure-only-with-read-access")
	case 2:
		vassert(werr != nil, "mutation-only-with-write-access")
	}
	if werr != nil {
		_, gerr := env.loc.GetFact(env.ctx, "f2")
		if prop != 2 {
			vassert(gerr != nil, "refused-mutation-leaves-state-unchanged")
		}
	}
	vreach("end")
}

// VH_C19_oneshot: the engine's own mutation on behalf of a request — retiring a one-shot
// scheduled rule after a {"trigger!":id} event — passes the same write gate as RemRule:
// without write access the rule stays in memory and in storage; with it the rule goes,
// as in an unprotected location.
func VH_C19_oneshot(kind, prop int) {
	env, in := vhDispatchEnv(kind)
	_, err := env.loc.AddRule(env.ctx, "os", Map{"schedule": "+1h", "action": vhAction("act")})
	vassume(err == nil)
	key := vsymStrN("prop.key", 4)
	vassume(key != "")
	ctx := NewContext("caller")
	ctx.WriteKey = vsymStrN("ctx.writeKey", 4)
	allowed := true
	switch prop {
	case 0:
		_, err = env.loc.AddFact(env.ctx, "lock", Map{"!writeKey": key})
		vassume(err == nil)
		allowed = ctx.WriteKey == key
	case 1:
		env.loc.SetReadOnly(env.ctx, true)
		allowed = false
	case 2: // unprotected
	}
	env.loc.ProcessEvent(ctx, Map{"trigger!": "os"})
	vassert(len(in.execs) == 1, "triggered-rule-runs")
	_, gerr := env.state.Get(env.ctx, "os")
	re := vhOpenEnv(kind, env.ctx, env.store, env.name)
	_, serr := re.state.Get(re.ctx, "os")
	if allowed {
		vassert(gerr != nil && serr != nil, "with-the-right-key-as-unprotected")
	} else {
		vassert(gerr == nil, "mutation-only-with-write-access")
		vassert(serr == nil, "refused-mutation-leaves-storage-unchanged")
	}
	vreach("end")
}
