package core

// C08 — deleteWith removes exactly the dependents, durably, and terminates.
//
// Unit: IndexedState/LinearState.{Add,Rem,rem,deleteDependencies,search,Get}, SetProp,
// MemStorage.{Add,Remove,Load}. N <= 3 stored items (plain facts, rule facts, property
// facts) with distinct symbolic ids; each item names 0..1 deleteWith target that is an
// arbitrary symbolic string, so the solver ranges over every dependency graph on the id
// set: chains, fans, cycles, self-loops, dangling targets. One deletion; the reference
// is the transitive closure computed as a term.
//
//verif:bounds N <= 3 items, <= 1 target per item (property facts: exactly their owner),
// one explicit Rem; both state implementations.

type vhNode struct {
	id      string
	target  string // "" = no deleteWith
	hasT    bool
	target2 string // a second deleteWith entry (kind 4)
	hasT2   bool
}

func vhC08Item(env *vhEnv, i int, kind int) *vhNode {
	n := &vhNode{}
	pre := "n" + string(rune('0'+i))
	var f Map
	switch kind {
	case 0: // plain fact
		n.id = vhId(i)
		f = Map{"a": "v"}
	case 1: // rule fact
		n.id = vhId(i)
		f = vhRuleFact(map[string]interface{}{"a": "?x"})
	case 2: // property fact of an (arbitrary) owner: SetProp names the owner in deleteWith
		owner := vsymStrN(pre+".owner", 4)
		vassume(owner != "")
		vassume(!vhasPrefix(owner, "!"))
		id, err := SetProp(env.ctx, env.state, owner, "p", true)
		vassume(err == nil)
		n.id, n.target, n.hasT = id, owner, true
		return n
	}
	if kind == 4 { // plain fact naming two targets
		n.id = vhId(i)
		f = Map{"a": "v"}
		n.target, n.hasT = vsymStrN(pre+".t", 4), true
		n.target2, n.hasT2 = vsymStrN(pre+".u", 4), true
		f[KW_DeleteWith] = []interface{}{n.target, n.target2}
		_, err := env.state.Add(env.ctx, n.id, f)
		vassume(err == nil)
		return n
	}
	if vchoose(2) == 1 {
		n.target = vsymStrN(pre+".t", 4)
		n.hasT = true
		f[KW_DeleteWith] = []interface{}{n.target}
	}
	_, err := env.state.Add(env.ctx, n.id, f)
	vassume(err == nil)
	return n
}

// VH_C08_cascade: build the items, delete one, compare with the reference closure.
func VH_C08_cascade(kind, k0, k1, k2 int) {
	env := vhNewEnv(kind)
	kinds := []int{k0, k1, k2}
	var nodes []*vhNode
	for i, k := range kinds {
		if k == 3 {
			continue // absent
		}
		n := vhC08Item(env, i, k)
		for _, o := range nodes {
			vassume(n.id != o.id)
		}
		nodes = append(nodes, n)
	}
	vassume(len(nodes) > 0)
	// the deleted id: one of the items, or an arbitrary other string
	var x string
	c := vchoose(len(nodes) + 1)
	if c < len(nodes) {
		x = nodes[c].id
	} else {
		x = vsymStrN("x", 4)
		vassume(x != "")
	}
	_, err := env.state.Rem(env.ctx, x)
	vassert(err == nil, "rem-succeeds")

	// reference: least fixpoint of "deleted"
	del := make([]bool, len(nodes))
	for i, n := range nodes {
		del[i] = n.id == x
	}
	for round := 0; round < len(nodes); round++ {
		for i, n := range nodes {
			if !n.hasT {
				continue
			}
			// deleted if its target is the explicitly removed id or a deleted item's id
			d := n.target == x
			for j, o := range nodes {
				d = vor(d, vand(del[j], n.target == o.id))
			}
			if n.hasT2 {
				d = vor(d, n.target2 == x)
				for j, o := range nodes {
					d = vor(d, vand(del[j], n.target2 == o.id))
				}
			}
			del[i] = vor(del[i], d)
		}
	}
	for i, n := range nodes {
		_, gerr := env.state.Get(env.ctx, n.id)
		gone := gerr != nil
		vassert(gone == del[i], "deleted-iff-transitive-dependent")
	}
	// durability: a location rebuilt from storage alone sees the same survivors
	env2 := vhOpenEnv(kind, NewContext("reload"), env.store, env.name)
	for i, n := range nodes {
		_, gerr := env2.state.Get(env2.ctx, n.id)
		gone := gerr != nil
		vassert(gone == del[i], "storage-agrees-after-reload")
	}
	vreach("end")
}

// VH_C08_refused_overwrite (C08 and C02): item d names the item a in deleteWith. A write to
// d's id is refused (a rule body the rule index cannot take). The refusal changes nothing:
// d is still found by a search on one of its values, and it still goes when a is removed
// (memory and storage).
func VH_C08_refused_overwrite(kind, odd, isRule int) {
	env := vhNewEnv(kind)
	_, err := env.loc.AddFact(env.ctx, "a", Map{"n": "1"})
	vassume(err == nil)
	if isRule == 1 {
		r := vhRule(map[string]interface{}{"tag": "?x"}, "act")
		r[KW_DeleteWith] = []interface{}{"a"}
		_, err = env.loc.AddRule(env.ctx, "d", r)
	} else {
		_, err = env.loc.AddFact(env.ctx, "d", Map{"tag": "t", KW_DeleteWith: []interface{}{"a"}})
	}
	vassume(err == nil)
	var body map[string]interface{}
	switch odd {
	case 0:
		body = map[string]interface{}{"foo": float64(1)}
	case 1:
		body = map[string]interface{}{"when": float64(5), "action": vhAction("z")}
	case 2:
		body = map[string]interface{}{"when": map[string]interface{}{"pattern": map[string]interface{}{"a": []interface{}{map[string]interface{}{"k": "1"}, map[string]interface{}{"k": "2"}}}}, "action": vhAction("z")}
	}
	_, aerr := env.loc.AddFact(env.ctx, "d", Map{"rule": body})
	vassume(aerr != nil) // the states differ in what they refuse; only a refusal is of interest
	// still found through the term index / scan
	srs, serr := env.state.Search(env.ctx, Map{KW_DeleteWith: []interface{}{"a"}})
	vassert(serr == nil && srs != nil && len(srs.Found) == 1, "refused-overwrite-leaves-the-item-searchable")
	// and still a dependent of a
	_, rerr := env.loc.RemFact(env.ctx, "a")
	vassert(rerr == nil, "rem-succeeds")
	_, gerr := env.state.Get(env.ctx, "d")
	vassert(gerr != nil, "deleted-iff-transitive-dependent")
	re := vhOpenEnv(kind, env.ctx, env.store, env.name)
	_, gerr = re.state.Get(re.ctx, "d")
	vassert(gerr != nil, "storage-agrees-after-reload")
	vreach("end")
}

// VH_C08_expired_at_load: deletion by expiry cascades like any other deletion, also when
// the expiry is noticed while the location is loaded from storage: item a expires, the
// location is reloaded after that instant, a is observed; its dependent d (and, for a
// rule, its disabled flag) is gone from the reloaded location and from storage.
func VH_C08_expired_at_load(kind, isRule int) {
	env := vhNewEnv(kind)
	t0 := int64(1600000000)
	vsetNow(t0 * 1000000000)
	if isRule == 1 {
		r := vhRule(map[string]interface{}{"tag": "?x"}, "act")
		r["expires"] = float64(t0 + 10)
		_, err := env.loc.AddRule(env.ctx, "a", r)
		vassume(err == nil)
		vassume(env.loc.EnableRule(env.ctx, "a", false) == nil)
	} else {
		_, err := env.loc.AddFact(env.ctx, "a", Map{"n": "1", "expires": float64(t0 + 10)})
		vassume(err == nil)
	}
	_, err := env.loc.AddFact(env.ctx, "d", Map{"tag": "t", KW_DeleteWith: []interface{}{"a"}})
	vassume(err == nil)
	vsetNow((t0 + 20) * 1000000000)
	re := vhOpenEnv(kind, env.ctx, env.store, env.name)
	_, gerr := re.state.Get(re.ctx, "a")
	vassert(gerr != nil, "expired-item-not-observable")
	_, gerr = re.state.Get(re.ctx, "d")
	vassert(gerr != nil, "deleted-iff-transitive-dependent")
	if isRule == 1 {
		// a rule added later under the same id starts out enabled
		_, err = re.loc.AddRule(re.ctx, "a", vhRule(map[string]interface{}{"tag": "?x"}, "act"))
		vassert(err == nil, "addrule-succeeds")
		on, eerr := re.loc.RuleEnabled(re.ctx, "a")
		vassert(eerr == nil && on, "flag-disappears-with-the-rule")
	}
	re2 := vhOpenEnv(kind, env.ctx, env.store, env.name)
	_, gerr = re2.state.Get(re2.ctx, "d")
	vassert(gerr != nil, "storage-agrees-after-reload")
	vreach("end")
}

// VH_C08_lapsed_chain: c names b, b names a; b's expiry instant has passed but nobody has
// looked at b since. Removing a deletes b as its dependent and, transitively, c — from
// memory and from storage.
func VH_C08_lapsed_chain(kind int) {
	env := vhNewEnv(kind)
	t0 := int64(1600000000)
	vsetNow(t0 * 1000000000)
	_, err := env.loc.AddFact(env.ctx, "a", Map{"n": "1"})
	vassume(err == nil)
	_, err = env.loc.AddFact(env.ctx, "b", Map{"n": "2", KW_DeleteWith: []interface{}{"a"}, "expires": float64(t0 + 10)})
	vassume(err == nil)
	_, err = env.loc.AddFact(env.ctx, "c", Map{"n": "3", KW_DeleteWith: []interface{}{"b"}})
	vassume(err == nil)
	vsetNow((t0 + 20) * 1000000000)
	_, err = env.loc.RemFact(env.ctx, "a")
	vassert(err == nil, "rem-succeeds")
	// c first: looking at b would notice its expiry and cascade by itself
	for _, id := range []string{"c", "a", "b"} {
		_, gerr := env.state.Get(env.ctx, id)
		vassert(gerr != nil, "deleted-iff-transitive-dependent")
	}
	re := vhOpenEnv(kind, env.ctx, env.store, env.name)
	// c first: looking at b would notice its expiry and cascade by itself
	for _, id := range []string{"c", "a", "b"} {
		_, gerr := re.state.Get(re.ctx, id)
		vassert(gerr != nil, "storage-agrees-after-reload")
	}
	vreach("end")
}
