package core

// C03 — condition queries follow and/or/not/pattern/code semantics.
//
// Unit: AndQuery.Exec, OrQuery.Exec, NotQuery.Exec, EmptyQuery.Exec, PatternQuery.Exec,
// CodeQuery.Exec, Bindings.Bind, ExtendBindings, ExecQuery, ParseQuery and the
// *QueryFromMap constructors, StripQuestionMarks, Location.SearchLocations.
//
// Combinators: leaves are harness Query values that return, per incoming binding, a
// chosen number (0..2) of extensions with symbolic payload; the oracle is a denotational
// evaluator over bindings lists.
//
//verif:bounds trees of depth <= 2, arity 0..2, shortCircuit both ways, 1..2 incoming
// bindings; pattern queries over 1..2 facts and 0..1 parent; code queries over the script
// family {true,false,null,1,'s',({z:5})}.

import "strconv"

// vhLeafQ: returns k extensions of each incoming binding, binding ?v<id>_<j> to a
// symbolic number.
type vhLeafQ struct {
	id int
	k  int
}

func (q vhLeafQ) Exec(ctx *Context, loc *Location, qc QueryContext, qr QueryResult) (*QueryResult, error) {
	acc := QueryResult{make([]Bindings, 0, 0), qr.Checked, qr.Elapsed}
	for _, bs := range qr.Bss {
		for j := 0; j < q.k; j++ {
			nb := make(Bindings)
			for p, v := range bs {
				nb[p] = v
			}
			nb["?v"+strconv.Itoa(q.id)] = vsymNum("leaf"+strconv.Itoa(q.id)+"."+strconv.Itoa(j), 0, 9)
			acc.Bss = append(acc.Bss, nb)
		}
	}
	return &acc, nil
}

// vhNeedsQ: keeps exactly the incoming bindings in which ?v<id> is bound (so its result
// depends on what the conjuncts evaluated before it have bound: and is not commutative).
type vhNeedsQ struct{ id int }

func (q vhNeedsQ) Exec(ctx *Context, loc *Location, qc QueryContext, qr QueryResult) (*QueryResult, error) {
	acc := QueryResult{make([]Bindings, 0, 0), qr.Checked, qr.Elapsed}
	for _, bs := range qr.Bss {
		if _, bound := bs["?v"+strconv.Itoa(q.id)]; bound {
			acc.Bss = append(acc.Bss, bs)
		}
	}
	return &acc, nil
}

// vhErrQ: fails (like a condition script that throws) whenever it is run on at least one
// binding.
type vhErrQ struct{}

func (q vhErrQ) Exec(ctx *Context, loc *Location, qc QueryContext, qr QueryResult) (*QueryResult, error) {
	if len(qr.Bss) > 0 {
		return nil, NewSyntaxError("leaf failed")
	}
	return &QueryResult{make([]Bindings, 0, 0), qr.Checked, qr.Elapsed}, nil
}

type vhQGen struct{ n int }

// gen builds a query tree of at most the given depth (structure is an explored decision).
func (g *vhQGen) gen(depth int) Query {
	max := 4
	if depth > 0 {
		max = 7
	}
	switch vchoose(max) {
	case 0:
		g.n++
		return vhLeafQ{id: g.n, k: vchoose(3)}
	case 1:
		return EmptyQuery{}
	case 2:
		// refers to the first or the second binding leaf of the tree, wherever it is
		return vhNeedsQ{id: 1 + vchoose(2)}
	case 3:
		return vhErrQ{}
	case 4:
		return AndQuery{Conjuncts: g.children(depth - 1)}
	case 5:
		return OrQuery{Disjuncts: g.children(depth - 1), ShortCircuit: vchoose(2) == 1}
	}
	return NotQuery{Negated: g.gen(depth - 1)}
}

func (g *vhQGen) children(depth int) []Query {
	n := vchoose(3)
	qs := make([]Query, 0, n)
	for i := 0; i < n; i++ {
		qs = append(qs, g.gen(depth))
	}
	return qs
}

// vhEval: the denotation of a query tree on a list of bindings (lists are multisets); the
// second result says that evaluation fails (a leaf that fails when run makes the whole
// query fail, in evaluation order).
func vhEval(q Query, in []Bindings) ([]Bindings, bool) {
	switch t := q.(type) {
	case vhLeafQ:
		r, _ := t.Exec(nil, nil, QueryContext{}, QueryResult{Bss: in})
		return r.Bss, false
	case vhNeedsQ:
		r, _ := t.Exec(nil, nil, QueryContext{}, QueryResult{Bss: in})
		return r.Bss, false
	case vhErrQ:
		return nil, len(in) > 0
	case EmptyQuery:
		return in, false
	case AndQuery:
		cur := in
		for _, c := range t.Conjuncts {
			var failed bool
			cur, failed = vhEval(c, cur)
			if failed {
				return nil, true
			}
		}
		return cur, false
	case OrQuery:
		var out []Bindings
		for _, bs := range in {
			for _, d := range t.Disjuncts {
				r, failed := vhEval(d, []Bindings{bs})
				if failed {
					return nil, true
				}
				out = append(out, r...)
				if t.ShortCircuit && len(r) > 0 {
					break
				}
			}
		}
		return out, false
	case NotQuery:
		var out []Bindings
		for _, bs := range in {
			r, failed := vhEval(t.Negated, []Bindings{bs})
			if failed {
				return nil, true
			}
			if len(r) == 0 {
				out = append(out, bs)
			}
		}
		return out, false
	}
	vassume(false)
	return nil, false
}

// vhSameMultiset: equal as multisets (both lists are concrete in length on a path).
func vhSameMultiset(a, b []Bindings) bool {
	if len(a) != len(b) {
		return false
	}
	// order is part of what the implementation produces deterministically; the
	// specification speaks of multisets, so compare up to permutation (n <= 8)
	used := make([]bool, len(b))
	ok := true
	for _, x := range a {
		found := false
		for j, y := range b {
			if used[j] {
				continue
			}
			if vconcreteEq(map[string]interface{}(x), map[string]interface{}(y)) {
				used[j] = true
				found = true
				break
			}
		}
		if !found {
			ok = false
		}
	}
	return ok
}

// vconcreteEq: deep equality that is syntactic on symbolic leaves (the two sides were
// built from the same symbols).
func vconcreteEq(a, b map[string]interface{}) bool {
	return vdeepEq(a, b)
}

// VH_C03_combinators: top-level operator by parameter, the rest explored.
func VH_C03_combinators(top, nIn int) {
	g := &vhQGen{}
	var q Query
	switch top {
	case 0:
		q = AndQuery{Conjuncts: g.children(1)}
	case 1:
		q = OrQuery{Disjuncts: g.children(1), ShortCircuit: false}
	case 2:
		q = OrQuery{Disjuncts: g.children(1), ShortCircuit: true}
	case 3:
		q = NotQuery{Negated: g.gen(1)}
	case 4:
		q = EmptyQuery{}
	}
	in := []Bindings{{"?a": 1.0}}
	if nIn == 2 {
		in = append(in, Bindings{"?a": 2.0})
	}
	in0 := vsnapshot([]interface{}{map[string]interface{}(in[0])})
	got, err := ExecQuery(nil, q, nil, QueryContext{}, QueryResult{Bss: in})
	want, wantFail := vhEval(q, in)
	vassert((err != nil) == wantFail, "fails-iff-a-subquery-that-is-run-fails")
	if err != nil || wantFail {
		vreach("end")
		return
	}
	vassert(vhSameMultiset(got.Bss, want), "result-equals-denotation")
	vassert(vdeepEq([]interface{}{map[string]interface{}(in[0])}, in0), "incoming-bindings-unmodified")
	vreach("end")
}

// VH_C03_pattern: a pattern query extends each incoming binding by every (local or
// inherited) fact matching the pattern after substitution.
func VH_C03_pattern(kind, nfacts, parent int) {
	f := vhNewForest(kind)
	here, up := f.locs[0], f.locs[1]
	type stored struct {
		fact Map
		loc  int
	}
	var facts []stored
	for i := 0; i < nfacts; i++ {
		fact := Map{"a": vsymNum("f"+strconv.Itoa(i)+".a", 0, 2), "b": vsymNum("f"+strconv.Itoa(i)+".b", 0, 2)}
		target, where := here, 0
		id := "id" + strconv.Itoa(i)
		if parent >= 1 && i == 1 {
			target, where = up, 1
			if parent == 2 {
				// fact ids are per location: the parent's fact carries the same id
				// as a local one and is still a separate fact
				id = "id0"
			}
		}
		_, err := target.AddFact(f.ctx, id, fact)
		vassume(err == nil)
		facts = append(facts, stored{fact, where})
	}
	if parent >= 1 {
		f.setParentsNamed(0, []string{"l1"})
	}
	// pattern {a:?x, b:?y} with ?x bound by the incoming binding
	q := PatternQuery{Pattern: map[string]interface{}{"a": "?x", "b": "?y"}}
	in := []Bindings{{"?x": vsymNum("in.x", 0, 2), "?keep": "k"}}
	got, err := ExecQuery(f.ctx, q, here, QueryContext{Locations: []string{"l0"}}, QueryResult{Bss: in})
	vassert(err == nil, "exec-no-error")
	if err != nil {
		return
	}
	// expected: one extension per fact whose a equals the bound ?x
	n := int64(0)
	for _, s := range facts {
		n += viteInt(vdeepEq(s.fact["a"], in[0]["?x"]), 1, 0)
	}
	vassert(int64(len(got.Bss)) == n, "one-extension-per-matching-fact")
	for _, b := range got.Bss {
		ok := false
		for _, s := range facts {
			ok = vor(ok, vand(vdeepEq(s.fact["a"], in[0]["?x"]), vdeepEq(b["?y"], s.fact["b"])))
		}
		vassert(ok, "extension-binds-fact-values")
		vassert(vdeepEq(b["?x"], in[0]["?x"]), "incoming-binding-kept")
		vassert(vdeepEq(b["?keep"], "k"), "incoming-binding-kept")
	}
	vreach("end")
}

// vhRunJS is the harness's model of the script family used by the code-query harness;
// the engine routes core.RunJavascript here, natively the real otto runs the same text.
func vhRunJS(bs *Bindings, props map[string]interface{}, code string) (interface{}, error) {
	switch code {
	case "":
		return nil, nil // the empty program: undefined
	case "true":
		return true, nil
	case "false":
		return false, nil
	case "null":
		return nil, nil
	case "1":
		return 1.0, nil
	case "'s'":
		return "s", nil
	case "({z: 5})":
		return map[string]interface{}{"z": int64(5)}, nil // otto exports whole numbers as int64
	case "x":
		// sees the binding ?x as variable x
		v, have := (*bs)["x"]
		if !have {
			return nil, NewSyntaxError("ReferenceError: 'x' is not defined")
		}
		return v, nil
	case "throw 1":
		return nil, NewSyntaxError("thrown")
	}
	return nil, NewSyntaxError("unknown script in the harness model")
}

var vhScripts = []string{"true", "false", "null", "1", "'s'", "({z: 5})", "x", "throw 1"}

// VH_C03_code: a code term keeps a binding iff the script's value is true or otherwise
// non-null, sees the bindings as variables, merges a returned object.
func VH_C03_code(script int) {
	env := vhNewEnv(1)
	code := vhScripts[script]
	q, err := ParseQuery(env.ctx, map[string]interface{}{"code": code})
	vassert(err == nil, "parse-no-error")
	if err != nil {
		return
	}
	xv := vchoose(3) // value of ?x: true, false, absent
	in := Bindings{"?k": "v"}
	switch xv {
	case 0:
		in["?x"] = true
	case 1:
		in["?x"] = false
	}
	in0 := vsnapshot(map[string]interface{}(in))
	got, eerr := ExecQuery(env.ctx, q, env.loc, QueryContext{}, QueryResult{Bss: []Bindings{in}})
	vassert(vdeepEq(map[string]interface{}(in), in0), "incoming-bindings-unmodified")
	switch code {
	case "throw 1":
		vassert(eerr != nil, "throwing-script-is-an-error")
		vreach("end")
		return
	case "x":
		if xv == 2 {
			vassert(eerr != nil, "unbound-variable-is-an-error")
			vreach("end")
			return
		}
	}
	vassert(eerr == nil, "exec-no-error")
	if eerr != nil {
		return
	}
	keep := true
	switch code {
	case "false", "null":
		keep = false
	case "x":
		keep = xv == 0
	}
	if keep {
		vassert(len(got.Bss) == 1, "binding-kept-iff-true-or-non-null")
		if len(got.Bss) == 1 {
			vassert(vdeepEq(got.Bss[0]["?k"], "v"), "binding-preserved")
			if code == "({z: 5})" {
				vassert(vhIsNum(got.Bss[0]["?z"], 5), "returned-object-merged")
			}
		}
	} else {
		vassert(len(got.Bss) == 0, "binding-kept-iff-true-or-non-null")
	}
	vreach("end")
}

// VH_C03_parse: ParseQuery dispatches on the keys and reports errors (never panics) for
// wrongly typed operands.
func VH_C03_parse(key, kind int) {
	env := vhNewEnv(1)
	var operand interface{}
	switch kind {
	case 0:
		operand = map[string]interface{}{"pattern": map[string]interface{}{"a": "?x"}}
	case 1:
		operand = []interface{}{map[string]interface{}{"pattern": map[string]interface{}{"a": "?x"}}}
	case 2:
		operand = vsymStrN("operand", 4)
	case 3:
		operand = vsymNum("operandn", 0, 3)
	case 4:
		operand = nil
	case 5:
		operand = []interface{}{vsymStrN("elem", 4)}
	case 6:
		operand = true
	}
	keys := []string{"pattern", "and", "or", "not", "code", "shortCircuit"}
	m := map[string]interface{}{keys[key]: operand}
	if key == 5 {
		m["or"] = []interface{}{}
	}
	q, err := ParseQuery(env.ctx, m)
	vassert((q == nil) == (err != nil), "query-xor-error")
	if err == nil {
		switch key {
		case 0:
			_, ok := q.(PatternQuery)
			vassert(ok, "dispatch-by-key")
		case 1:
			_, ok := q.(AndQuery)
			vassert(ok, "dispatch-by-key")
		case 2, 5:
			_, ok := q.(OrQuery)
			vassert(ok, "dispatch-by-key")
		case 3:
			_, ok := q.(NotQuery)
			vassert(ok, "dispatch-by-key")
		case 4:
			_, ok := q.(CodeQuery)
			vassert(ok, "dispatch-by-key")
		}
	}
	vreach("end")
}

// vhIsNum: x is the number n, whichever Go numeric type carries it.
func vhIsNum(x interface{}, n int64) bool {
	switch v := x.(type) {
	case int64:
		return v == n
	case int:
		return int64(v) == n
	case float64:
		return v == float64(n)
	}
	return false
}

// VH_C03_or_code: an or whose first disjunct is a code term returning an object, followed
// by a pattern disjunct: the second disjunct must see the original binding.
func VH_C03_or_code(sc int) {
	env := vhNewEnv(1)
	y := vsymNum("fact.b", 0, 3)
	_, err := env.loc.AddFact(env.ctx, "f", Map{"b": y})
	vassume(err == nil)
	q, perr := ParseQuery(env.ctx, map[string]interface{}{
		"or":           []interface{}{map[string]interface{}{"code": "({z: 5})"}, map[string]interface{}{"pattern": map[string]interface{}{"b": "?z"}}},
		"shortCircuit": sc == 1,
	})
	vassume(perr == nil)
	got, eerr := ExecQuery(env.ctx, q, env.loc, QueryContext{Locations: []string{"here"}}, QueryResult{Bss: []Bindings{{"?k": "v"}}})
	vassert(eerr == nil, "exec-no-error")
	if eerr != nil {
		return
	}
	if sc == 1 {
		vassert(len(got.Bss) == 1, "short-circuit-stops-at-first-non-empty-disjunct")
	} else {
		// concatenation: the code disjunct's {k,z:5} and the pattern's {k,z:<fact.b>}
		vassert(len(got.Bss) == 2, "or-is-concatenation-of-disjuncts")
		if len(got.Bss) == 2 {
			vassert(vhIsNum(got.Bss[0]["?z"], 5), "first-disjunct-result")
			vassert(vdeepEq(got.Bss[1]["?z"], y), "second-disjunct-sees-original-binding")
		}
	}
	vreach("end")
}

// VH_C03_pattern_array: a pattern with a variable inside an array (and one nested in a
// map), evaluated for two incoming bindings in one call: each binding is substituted into
// a fresh copy of the pattern — the second binding sees the pattern as written, and the
// query's own pattern is unchanged afterwards.
func VH_C03_pattern_array(kind int) {
	env := vhNewEnv(kind)
	v1, v2 := vsymStrN("v1", 2), vsymStrN("v2", 2)
	vassume(v1 != v2 && !vhasPrefix(v1, "?") && !vhasPrefix(v2, "?"))
	_, err := env.loc.AddFact(env.ctx, "f1", Map{"tags": []interface{}{v1}, "m": map[string]interface{}{"k": v1}, "n": "1"})
	vassume(err == nil)
	_, err = env.loc.AddFact(env.ctx, "f2", Map{"tags": []interface{}{v2}, "m": map[string]interface{}{"k": v2}, "n": "2"})
	vassume(err == nil)
	pat := map[string]interface{}{"tags": []interface{}{"?t"}, "m": map[string]interface{}{"k": "?t"}, "n": "?n"}
	pat0 := vsnapshot(pat)
	q := PatternQuery{Pattern: pat}
	in := []Bindings{{"?t": v1}, {"?t": v2}}
	got, qerr := ExecQuery(env.ctx, q, env.loc, QueryContext{Locations: []string{env.loc.Name}}, QueryResult{Bss: in})
	vassert(qerr == nil, "exec-no-error")
	if qerr != nil {
		return
	}
	vassert(len(got.Bss) == 2, "one-extension-per-matching-fact")
	if len(got.Bss) == 2 {
		vassert(vdeepEq(got.Bss[0]["?n"], "1") && vdeepEq(got.Bss[1]["?n"], "2"), "extension-binds-fact-values")
	}
	vassert(vdeepEq(pat, pat0), "query-pattern-unmodified")
	// and once more with the same parsed query (a cached rule condition is evaluated per event)
	got, qerr = ExecQuery(env.ctx, q, env.loc, QueryContext{Locations: []string{env.loc.Name}}, QueryResult{Bss: []Bindings{{"?t": v2}}})
	vassert(qerr == nil && len(got.Bss) == 1, "one-extension-per-matching-fact")
	vreach("end")
}
