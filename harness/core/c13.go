package core

// C13 — no input can crash, hang or poison a location.
//
// Unit: every public Location operation on both states with JSON documents whose
// reserved keys hold a value of every JSON kind (wrongly typed on purpose), each followed
// by ordinary traffic (the canary) on the same location.
//
//verif:bounds one unusual input per path: reserved key x value kind (null, bool, number,
// string, variable-looking string, {}, [], {k:s}, [s], [s,n]); then add/get/search/event
// canary. Strings symbolic (len<=4).

var vhReserved = []string{"rule", "ttl", "expires", KW_DeleteWith, "id", "!p", KW_id, "when", "schedule", "trigger!", "evaluate!", "?k", "k"}

func vhKindValue(tag string, kind int) interface{} {
	switch kind {
	case 0:
		return nil
	case 1:
		return vsymBool(tag + ".b")
	case 2:
		return vsymNum(tag+".n", -2, 2)
	case 3:
		return vsymStrN(tag+".s", 4) // unconstrained: may start with '?', be empty, ...
	case 4:
		return map[string]interface{}{}
	case 5:
		return []interface{}{}
	case 6:
		return map[string]interface{}{vsymStrN(tag+".k", 3): vsymStrN(tag+".v", 3)}
	case 7:
		return []interface{}{vsymStrN(tag+".e", 3)}
	case 8:
		return []interface{}{vsymStrN(tag+".e", 3), vsymNum(tag+".en", 0, 1)}
	case 9:
		return "?x"
	case 10:
		return map[string]interface{}{"when": vsymNum(tag+".w", 0, 9)}
	case 11:
		return map[string]interface{}{"when": map[string]interface{}{"pattern": vsymNum(tag+".w", 0, 9)}}
	case 12:
		return map[string]interface{}{"when": map[string]interface{}{"pattern": map[string]interface{}{"a": "?x"}}, "action": vsymNum(tag+".w", 0, 9)}
	}
	vassume(false)
	return nil
}

const vhKinds = 13

// vhTry runs f and reports whether it panicked.
func vhTry(f func()) (panicked bool) {
	defer func() {
		if r := recover(); r != nil {
			if _, ok := r.(vAssumeFailed); ok {
				panic(r)
			}
			panicked = true
		}
	}()
	f()
	return false
}

// vhCanary: ordinary traffic must still work.
func vhCanary(env0 *vhEnv, in *vhInterp) {
	// the next client is another request with a context of its own (a lock or privilege
	// left behind on the first context must not matter, nor help)
	env := &vhEnv{kind: env0.kind, ctx: NewContext("canary"), store: env0.store, state: env0.state, loc: env0.loc, name: env0.name}
	_, err := env.loc.AddFact(env.ctx, "canary", Map{"z": "1"})
	vassert(err == nil, "canary-add")
	got, gerr := env.loc.GetFact(env.ctx, "canary")
	vassert(gerr == nil && got != nil, "canary-get")
	srs, serr := env.loc.SearchFacts(env.ctx, Map{"z": "?v"}, true)
	vassert(serr == nil && srs != nil && len(srs.Found) == 1, "canary-search")
	in.execs = nil
	_, cond := env.loc.ProcessEvent(env.ctx, Map{"zz": "1"})
	vassert(cond == nil, "canary-event")
	n := 0
	for _, e := range in.execs {
		if e.ruleId == "canaryRule" {
			n++
		}
	}
	vassert(n == 1, "canary-rule-fires")
}

func vhC13Env(kind int) (*vhEnv, *vhInterp) {
	env, in := vhDispatchEnv(kind)
	_, err := env.loc.AddRule(env.ctx, "canaryRule", vhRule(map[string]interface{}{"zz": "?v"}, "act"))
	vassume(err == nil)
	return env, in
}

// VH_C13_fact: AddFact with a reserved key holding a value of an arbitrary kind, then
// read it back / search / dispatch, then the canary.
func VH_C13_fact(kind, key, vk int) {
	env, in := vhC13Env(kind)
	fact := Map{vhReserved[key]: vhKindValue("v", vk), "a": "b"}
	p := vhTry(func() {
		id, err := env.loc.AddFact(env.ctx, "x", fact)
		if err == nil {
			env.loc.GetFact(env.ctx, id)
			env.loc.SearchFacts(env.ctx, Map{"a": "?q"}, true)
			env.loc.ListRules(env.ctx, true)
			env.loc.ProcessEvent(env.ctx, Map{"a": "b"})
			env.loc.RemFact(env.ctx, id)
		}
	})
	vassert(!p, "no-panic")
	vhCanary(env, in)
	vreach("end")
}

// VH_C13_rule: AddRule with a wrongly typed part.
func VH_C13_rule(kind, part, vk int) {
	env, in := vhC13Env(kind)
	v := vhKindValue("v", vk)
	rule := Map{"when": map[string]interface{}{"pattern": map[string]interface{}{"a": "?x"}}, "action": vhAction("act2")}
	switch part {
	case 0:
		rule["when"] = v
	case 1:
		rule["when"] = map[string]interface{}{"pattern": v}
	case 2:
		delete(rule, "when")
		rule["schedule"] = v
	case 3:
		rule["condition"] = v
	case 4:
		rule["action"] = v
	case 5:
		delete(rule, "action")
		rule["actions"] = v
	case 6:
		rule["expires"] = v
	case 7:
		rule[KW_DeleteWith] = v
	case 8:
		rule["policies"] = v
	case 9:
		rule["action"] = map[string]interface{}{"code": v, "endpoint": "vh"}
	}
	p := vhTry(func() {
		id, err := env.loc.AddRule(env.ctx, "x", rule)
		if err == nil {
			env.loc.GetRule(env.ctx, id)
			env.loc.ListRules(env.ctx, true)
			env.loc.ProcessEvent(env.ctx, Map{"a": "b"})
			env.loc.EnableRule(env.ctx, id, false)
			env.loc.RemRule(env.ctx, id)
		}
	})
	vassert(!p, "no-panic")
	vhCanary(env, in)
	vreach("end")
}

// VH_C13_query: search pattern / event with unusual keys and values against a location
// holding ordinary data.
func VH_C13_query(kind, key, vk, what int) {
	env, in := vhC13Env(kind)
	_, err := env.loc.AddFact(env.ctx, "f", Map{"a": "b", "k": "v"})
	vassume(err == nil)
	_, err = env.loc.AddRule(env.ctx, "r", vhRule(map[string]interface{}{"a": "?x", "k": "?y"}, "act2"))
	vassume(err == nil)
	doc := Map{vhReserved[key]: vhKindValue("v", vk), "a": "b"}
	p := vhTry(func() {
		if what == 0 {
			env.loc.SearchFacts(env.ctx, doc, true)
		} else {
			env.loc.ProcessEvent(env.ctx, doc)
		}
	})
	vassert(!p, "no-panic")
	vhCanary(env, in)
	vreach("end")
}

// VH_C13_selfvar: stored data whose strings look like variables, searched with a pattern
// that repeats a variable (the matcher re-matches a bound value as a pattern).
func VH_C13_selfvar(kind int) {
	env, in := vhC13Env(kind)
	s1, s2 := vsymStrN("s1", 3), vsymStrN("s2", 3)
	_, err := env.loc.AddFact(env.ctx, "f", Map{"a": s1, "b": s2})
	vassume(err == nil)
	p := vhTry(func() {
		env.loc.SearchFacts(env.ctx, Map{"a": "?x", "b": "?x"}, true)
	})
	vassert(!p, "no-panic")
	vhCanary(env, in)
	vreach("end")
}

// VH_C13_fact_expiring: like VH_C13_fact, the fact also carries a valid expiry (the
// expiry code visits the other reserved keys).
func VH_C13_fact_expiring(kind, key, vk, enc int) {
	env, in := vhC13Env(kind)
	fact := Map{vhReserved[key]: vhKindValue("v", vk), "a": "b"}
	if enc == 0 {
		fact["ttl"] = "1h"
	} else {
		fact["expires"] = float64(vhNow/1000000000 + 3600)
	}
	p := vhTry(func() {
		id, err := env.loc.AddFact(env.ctx, "x", fact)
		if err == nil {
			env.loc.GetFact(env.ctx, id)
			env.loc.SearchFacts(env.ctx, Map{"a": "?q"}, true)
			env.loc.ProcessEvent(env.ctx, Map{"a": "b"})
			env.loc.RemFact(env.ctx, id)
		}
	})
	vassert(!p, "no-panic")
	vhCanary(env, in)
	vreach("end")
}

// VH_C13_overwrite_rejected: an existing, working rule; an overwrite of its id that is
// refused (an odd rule body); the old rule is still stored, so it must still be dispatched,
// and the location keeps serving. odd: 0 rule without when ({"rule":{"foo":1}}), 1 when of
// the wrong kind, 2 a rule whose when holds an unsortable array.
func VH_C13_overwrite_rejected(kind, odd int) {
	env, in := vhDispatchEnv(kind)
	_, err := env.loc.AddRule(env.ctx, "r1", vhRule(map[string]interface{}{"a": "?x"}, "act"))
	vassume(err == nil)
	var body map[string]interface{}
	switch odd {
	case 0:
		body = map[string]interface{}{"foo": float64(1)}
	case 1:
		body = map[string]interface{}{"when": float64(5), "action": vhAction("z")}
	case 2:
		body = map[string]interface{}{"when": map[string]interface{}{"pattern": map[string]interface{}{"a": []interface{}{map[string]interface{}{"k": "1"}, map[string]interface{}{"k": "2"}}}}, "action": vhAction("z")}
	}
	_, aerr := env.loc.AddFact(env.ctx, "r1", Map{"rule": body})
	_, gerr := env.loc.GetRule(env.ctx, "r1")
	_, cond := env.loc.ProcessEvent(env.ctx, Map{"a": "1"})
	vassert(cond == nil, "canary-after-op")
	if aerr != nil && gerr == nil {
		// refused, and the old rule is still there: it still fires
		vassert(vhFired(in, "r1", "act") == 1, "rejected-overwrite-leaves-the-old-rule-working")
	}
	_, err = env.loc.AddFact(env.ctx, "later", Map{"k": "v"})
	vassert(err == nil, "canary-after-op")
	vreach("end")
}

// VH_C13_protprop: a protection property (!enabled, !writeKey, !readKey; prop 3 = !parents is not in the registered sets) written
// with a value of the wrong JSON kind (anything but a string: those are the legitimate
// settings) is an unusual input, not a way to lock the location: ordinary traffic keeps
// working afterwards.
func VH_C13_protprop(kind, prop, vk int) {
	vassume(vk != 3 && vk != 9) // strings are real settings (C19)
	env, in := vhC13Env(kind)
	name := []string{"!enabled", "!writeKey", "!readKey", "!parents"}[prop]
	if prop == 3 {
		vassume(vk != 5 && vk != 7) // arrays of strings are real parent lists (C09)
	}
	p := vhTry(func() {
		env.loc.AddFact(env.ctx, "", Map{name: vhKindValue("v", vk)})
	})
	vassert(!p, "no-panic")
	vhCanary(env, in)
	vreach("end")
}

// VH_C13_varchain: stored strings that look like variables bind the query's variables to
// one another (?x -> "?y", ?y -> "?x"); a later conjunct that mentions them substitutes
// the bindings into its pattern. Whatever the strings, the query returns.
func VH_C13_varchain(kind int) {
	env, in := vhC13Env(kind)
	s1, s2 := vsymStrN("s1", 2), vsymStrN("s2", 2)
	_, err := env.loc.AddFact(env.ctx, "f", Map{"a": s1, "b": s2})
	vassume(err == nil)
	_, err = env.loc.AddFact(env.ctx, "g", Map{"c": "1"})
	vassume(err == nil)
	q, perr := ParseQuery(env.ctx, map[string]interface{}{
		"and": []interface{}{
			map[string]interface{}{"pattern": map[string]interface{}{"a": "?x", "b": "?y"}},
			map[string]interface{}{"pattern": map[string]interface{}{"c": "?x"}},
		},
	})
	vassume(perr == nil)
	p := vhTry(func() {
		ExecQuery(env.ctx, q, env.loc, QueryContext{Locations: []string{env.loc.Name}}, InitialQueryResult(env.ctx))
	})
	vassert(!p, "no-panic")
	vhCanary(env, in)
	vreach("end")
}

// VH_C13_actionless: a fact that is shaped like a rule but is not one the rule decoder
// accepts (no action, or an action of the wrong kind) is stored through the fact API with a
// when that matches ordinary events. Events that match it are still processed: the other
// rules run.
func VH_C13_actionless(kind, odd int) {
	env, in := vhC13Env(kind)
	var body map[string]interface{}
	when := map[string]interface{}{"pattern": map[string]interface{}{"zz": "?v"}}
	switch odd {
	case 0:
		body = map[string]interface{}{"when": when}
	case 1:
		body = map[string]interface{}{"when": when, "action": float64(5)}
	case 2:
		body = map[string]interface{}{"when": when, "actions": "none"}
	}
	p := vhTry(func() { env.loc.AddFact(env.ctx, "odd", Map{"rule": body}) })
	vassert(!p, "no-panic")
	vhCanary(env, in)
	vreach("end")
}
