package core

// Shared builders for symbolic JSON-like values used by the harnesses.
//
// Structure is concrete (chosen by harness parameters and vchoose decisions); keys
// and scalar leaves are symbolic.

import "strconv"

type vhB struct {
	prefix string
	n      int
	lite   bool // scalar() explores string/number only
	plain  bool // strings do not carry the pattern index's type prefixes (F_, B_, S_)
	// carve-outs of the open C01 findings (see known_findings.json):
	sortable   bool // arrays hold scalars of one kind (or <= 1 element)
	noVarConst bool // an array holding a variable holds nothing else
}

// pair returns two distinct scalars for a two-element array.
func (b *vhB) pair() (interface{}, interface{}) {
	if b.sortable {
		if vchoose(2) == 0 {
			x, y := b.str(), b.str()
			vassume(x != y)
			return x, y
		}
		x, y := b.num(), b.num()
		vassume(x != y)
		return x, y
	}
	x, y := b.scalar2(), b.scalar2()
	vhScalarsDistinct(x, y)
	return x, y
}

func (b *vhB) name(kind string) string {
	b.n++
	return b.prefix + "." + kind + strconv.Itoa(b.n)
}

// key returns a symbolic map key that is not a variable.
func (b *vhB) key() string {
	k := vsymStrN(b.name("k"), 6)
	vassume(!IsVariable(k))
	return k
}

// anyKey returns an unconstrained symbolic key.
func (b *vhB) anyKey() string { return vsymStrN(b.name("k"), 6) }

// str returns a symbolic string constant (not variable-looking).
func (b *vhB) str() string {
	s := vsymStrN(b.name("s"), 6)
	vassume(!IsVariable(s))
	if b.plain {
		vassume(!vhasPrefix(s, "F_"))
		vassume(!vhasPrefix(s, "B_"))
		vassume(!vhasPrefix(s, "S_"))
	}
	return s
}

func (b *vhB) num() float64 { return vsymNum(b.name("n"), -3, 3) }

// scalar returns a data scalar whose kind is an explored decision:
// string, number, bool or null.
func (b *vhB) scalar() interface{} {
	if b.lite {
		return b.scalar2()
	}
	switch vchoose(4) {
	case 0:
		return b.str()
	case 1:
		return b.num()
	case 2:
		return vsymBool(b.name("b"))
	}
	return nil
}

// scalar2 restricts the kinds to string and number (cheaper; used where the kind
// distinction beyond "two different kinds" does not matter).
func (b *vhB) scalar2() interface{} {
	if vchoose(2) == 0 {
		return b.str()
	}
	return b.num()
}

// leaf returns a pattern leaf: a scalar constant, or one of the given variables.
func (b *vhB) leaf(vars ...string) interface{} {
	c := vchoose(1 + len(vars))
	if c == 0 {
		return b.scalar()
	}
	return vars[c-1]
}

func (b *vhB) leaf2(vars ...string) interface{} {
	c := vchoose(1 + len(vars))
	if c == 0 {
		return b.scalar2()
	}
	return vars[c-1]
}

// vhKeysDistinct assumes pairwise distinct keys (so that a literal map has the
// stated number of entries).
func vhDistinct(ks ...string) {
	for i := 0; i < len(ks); i++ {
		for j := i + 1; j < len(ks); j++ {
			vassume(ks[i] != ks[j])
		}
	}
}

// vhScalarsDistinct assumes two scalars differ (as JSON values).
func vhScalarsDistinct(xs ...interface{}) {
	for i := 0; i < len(xs); i++ {
		for j := i + 1; j < len(xs); j++ {
			vassume(!vdeepEq(xs[i], xs[j]))
		}
	}
}

func vhIsVarString(x interface{}) (string, bool) {
	s, ok := x.(string)
	if ok && IsVariable(s) {
		return s, true
	}
	return "", false
}
