package core

// C07 — expiry is absolute and expired items are never observable.
//
// Unit: setExpires, getExpiration, checkExpiration, notAfter, PrepareFact, expire/rem in
// both states, Get/Search/FindRules, Load, Location.AddRule's expiry lifting. The clock
// is the harness-driven stub; write instant, ttl / expires value, reload instant and
// observation instant are symbolic, so the boundary second is decided by the solver.
//
//verif:bounds one item (fact or rule); encodings: expires number, ttl number, ttl
// duration string "<n>s", expires RFC3339 string, none; 1 write, optional reload,
// 1 observation (Get, Search or event dispatch); instants within 1000 s of the base.

import (
	"strconv"
	"sync"
	"time"
)

const vhT0 = int64(1600000000)

func vhSetSecs(secs int64) { vsetNow(secs * 1000000000) }

// vhExpiring adds the chosen expiry encoding to fact f written at instant t0 and returns
// (has expiry, expiry instant E in seconds).
func vhExpiring(f map[string]interface{}, enc int, t0 int64) (bool, int64) {
	switch enc {
	case 0: // expires as a number
		e := int64(vsymInt("E", int(vhT0)-5, int(vhT0)+1100))
		f["expires"] = float64(e)
		return e != 0, e
	case 1: // ttl as a number of seconds
		ttl := int64(vsymInt("ttl", -5, 1100))
		f["ttl"] = float64(ttl)
		return true, t0 + ttl
	case 2: // ttl as a duration string
		ttl := int64(vsymInt("ttl", -5, 1100))
		f["ttl"] = strconv.FormatInt(ttl, 10) + "s"
		return true, t0 + ttl
	case 3: // expires as an RFC3339 string
		e := int64(vsymInt("E", int(vhT0)-5, int(vhT0)+1100))
		f["expires"] = time.Unix(e, 0).UTC().Format(time.RFC3339)
		return true, e
	case 4:
		return false, 0
	case 5: // ttl as a very large number of seconds (centuries)
		ttl := vsymInt64("bigttl", 9000000000, 20000000000)
		f["ttl"] = float64(ttl)
		return true, t0 + ttl
	case 6: // both: a ttl written over a fact that still carries an (older) absolute expires
		// (the read-modify-write of an item that already has an expiry): the ttl decides
		ttl := int64(vsymInt("ttl", -5, 1100))
		f["ttl"] = float64(ttl)
		f["expires"] = float64(int64(vsymInt("Eold", int(vhT0)-5, int(vhT0)+1100)))
		return true, t0 + ttl
	}
	vassume(false)
	return false, 0
}

// VH_C07_fact: a fact with an expiry; obs 0 Get, 1 Search; reload 0/1.
func VH_C07_fact(kind, enc, reload, obs int) {
	vhC07Fact(kind, enc, reload, obs)
}

// vhStoredFormatCase: the cases of the former finding "storage holds the caller's map, not
// the prepared fact" (repaired in 73e02d4): a relative ttl (both states) or an RFC3339
// expires (linear state, whose Load does not prepare facts) followed by a reload. The
// main harnesses cover them now; the two harnesses below keep them as named regression
// cases.
func vhStoredFormatCase(kind, enc, reload int) bool {
	return reload == 1 && (enc == 1 || enc == 2 || enc == 5 || (kind == 1 && enc == 3))
}

// VH_C07_witness_ttl_reload: such an item, reloaded, then observed.
func VH_C07_witness_ttl_reload(kind, enc, obs int) {
	vassume(vhStoredFormatCase(kind, enc, 1))
	vhC07Fact(kind, enc, 1, obs)
}

func vhC07Fact(kind, enc, reload, obs int) {
	env := vhNewEnv(kind)
	t0 := vsymInt64("t0", vhT0, vhT0+1000)
	vhSetSecs(t0)
	f := Map{"a": "v"}
	has, E := vhExpiring(f, enc, t0)
	_, err := env.state.Add(env.ctx, "f", f)
	if has {
		vassert((err != nil) == (E <= t0), "already-expired-write-rejected")
	} else {
		vassert(err == nil, "write-without-expiry-succeeds")
	}
	if err != nil {
		vreach("end-rejected")
		return
	}
	t1 := vsymInt64("t1", vhT0, vhT0+1050)
	vassume(t1 >= t0)
	vhSetSecs(t1)
	if reload == 1 {
		env = vhOpenEnv(kind, NewContext("reload"), env.store, env.name)
	}
	t2 := vsymInt64("t2", vhT0, vhT0+1100)
	vassume(t2 >= t1)
	vhSetSecs(t2)
	visible := false
	switch obs {
	case 0:
		_, gerr := env.state.Get(env.ctx, "f")
		visible = gerr == nil
	case 1:
		srs, serr := env.state.Search(env.ctx, Map{"a": "?x"})
		vassert(serr == nil, "search-no-error")
		visible = serr == nil && len(srs.Found) == 1
	}
	want := vor(!has, t2 < E)
	vassert(visible == want, "visible-iff-before-expiry")
	// once observed at or after the expiry instant the item is gone from storage too
	if !visible {
		_, still := env.store.State(env.ctx)[env.name]["f"]
		vassert(!still, "expired-item-purged-from-storage")
	}
	vreach("end")
}

// VH_C07_rule: a rule with an expiry added through Location.AddRule; observed by dispatch.
func VH_C07_rule(kind, enc, reload int) {
	// Location.AddRule takes expires as a number only: an RFC3339 string (documented for
	// facts) is refused with an error by the rule decoder, so that encoding is not a case
	vassume(enc != 3)
	vhC07Rule(kind, enc, reload)
}

// VH_C07_witness_rule_ttl_reload: same finding through Location.AddRule.
func VH_C07_witness_rule_ttl_reload(kind, enc int) {
	vassume(enc == 1 || enc == 2)
	vhC07Rule(kind, enc, 1)
}

func vhC07Rule(kind, enc, reload int) {
	env, in := vhDispatchEnv(kind)
	t0 := vsymInt64("t0", vhT0, vhT0+1000)
	vhSetSecs(t0)
	r := vhRule(map[string]interface{}{"a": "?x"}, "act")
	has, E := vhExpiring(r, enc, t0)
	_, err := env.loc.AddRule(env.ctx, "r", r)
	if has {
		vassert((err != nil) == (E <= t0), "already-expired-write-rejected")
	} else {
		vassert(err == nil, "write-without-expiry-succeeds")
	}
	if err != nil {
		vreach("end-rejected")
		return
	}
	t1 := vsymInt64("t1", vhT0, vhT0+1050)
	vassume(t1 >= t0)
	vhSetSecs(t1)
	if reload == 1 {
		env = vhOpenEnv(kind, NewContext("reload"), env.store, env.name)
		vhInstallInterp(env, in)
	}
	t2 := vsymInt64("t2", vhT0, vhT0+1100)
	vassume(t2 >= t1)
	vhSetSecs(t2)
	_, cond := env.loc.ProcessEvent(env.ctx, Map{"a": "b"})
	vassert(cond == nil, "event-complete")
	fired := len(in.execs) == 1
	vassert(fired == vor(!has, t2 < E), "dispatched-iff-before-expiry")
	vreach("end")
}

// VH_C07_reload_mixed: storage holds an item whose expiry passes before the location is
// rebuilt, next to items without an expiry: the reloaded location has exactly the others
// (the expired one is dropped and purged, nothing else is lost). pos: position of the
// expiring item in the write order (0 first, 1 middle, 2 last).
func VH_C07_reload_mixed(kind, pos int) {
	vhSetSecs(vhT0)
	env := vhNewEnv(kind)
	e := int64(vsymInt("E", int(vhT0)+1, int(vhT0)+1000))
	ids := []string{"a", "b", "c"}
	for i, id := range ids {
		f := Map{"k": id}
		if i == pos {
			f["expires"] = float64(e)
		}
		_, err := env.state.Add(env.ctx, id, f)
		vassume(err == nil)
	}
	now := int64(vsymInt("reloadAt", int(vhT0), int(vhT0)+2000))
	vhSetSecs(now)
	env2 := vhOpenEnv(kind, NewContext("reload"), env.store, env.name)
	for i, id := range ids {
		_, gerr := env2.state.Get(env2.ctx, id)
		if i == pos {
			vassert((gerr == nil) == (now < e), "visible-iff-before-expiry")
		} else {
			vassert(gerr == nil, "unexpired-item-survives-reload")
		}
	}
	vreach("end")
}

// ---- expiry observed by a reader that had to wait -----------------------------------------
//
// vhSlowStore: a storage back end whose Add takes long. While the writer is inside it (and so
// holds the state lock) the reader is let go, and then the clock moves past x's expiry
// instant. The reader cannot get the lock before the writer is done, so whatever it does
// with the lock happens after the instant.

type vhSlowStore struct {
	*MemStorage
	slowTo  int64 // the clock reading (ns) when a slow Add returns; 0: not slow
	inLock  chan bool
	started chan bool
}

func (s *vhSlowStore) Add(ctx *Context, loc string, data *Pair) error {
	if s.slowTo != 0 {
		close(s.inLock) // the writer holds the state lock now
		<-s.started     // the reader is on its way
		vyield()
		vsetNow(s.slowTo)
		s.slowTo = 0
	}
	return s.MemStorage.Add(ctx, loc, data)
}

// VH_C07_waiting_reader [concurrency mode]: a Get of x starts while a slow write of another
// id holds the state lock; x's expiry instant passes during the write. The Get waited for
// the lock across the instant: it does not return x.
func VH_C07_waiting_reader(kind int) {
	t0 := int64(1600000000)
	vhSetSecs(t0 + 5)
	ctx := NewContext("c07w")
	mem, err := NewMemStorage(ctx)
	vassume(err == nil)
	store := &vhSlowStore{MemStorage: mem, inLock: make(chan bool), started: make(chan bool)}
	st := vhNewState(ctx, kind, "here", store)
	_, err = st.Add(ctx, "x", Map{"a": "1", "expires": float64(t0 + 10)})
	vassume(err == nil)
	store.slowTo = (t0 + 15) * 1000000000
	var wg sync.WaitGroup
	wg.Add(2)
	var got Map
	var gerr error
	go func() {
		st.Add(ctx.SubContext(), "y", Map{"b": "2"})
		wg.Done()
	}()
	go func() {
		<-store.inLock
		close(store.started)
		got, gerr = st.Get(ctx.SubContext(), "x")
		wg.Done()
	}()
	wg.Wait()
	vassert(gerr != nil || got == nil, "observable-iff-before-expiry")
	vreach("end")
}
