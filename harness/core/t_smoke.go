package core

// Smoke harnesses for the engine itself.

func VH_smoke_str() {
	s := vsymStr("s")
	if IsVariable(s) {
		vassert(len(s) >= 1, "var-nonempty")
		vassert(s[0] == '?', "var-first-char")
	} else {
		vassert(s == "" || s[0] != '?', "const-first-char")
	}
	vassert(s != "abc", "must-fail-abc")
	vreach("end")
}

func VH_smoke_match(n int) {
	p := map[string]interface{}{"a": "?x", vsymStr("k"): vsymStr("v")}
	d := map[string]interface{}{"a": vsymNum("n", -5, 5), "b": vsymStr("w")}
	bss, err := Matches(nil, p, d)
	vassert(err == nil, "no-error")
	if len(bss) > 0 {
		vassert(vdeepEq(bss[0]["?x"], d["a"]), "x-bound")
		vreach("matched")
	}
	vreach("end")
}
