package core

import "strconv"

// C02 — fact search returns exactly the stored facts that match.
//
// O2 (state level). Unit: IndexedState/LinearState.{Add,Rem,Get,Search} (add, rem,
// PrepareFact, ExtractTerms, TermIndex.{Add,RemIdTerms,Search}, search, expire) over the
// real MemStorage. History of <= 3 Add/Rem operations with symbolic ids (aliasing, hence
// overwrite and re-add, decided by the solver) and symbolic facts; then Search with a
// symbolic pattern and Get of every id. Reference: a map id -> last written fact kept by
// the harness; expected search result = { (id, Matches(p, fact)) }.
//
//verif:bounds history <= 3 ops over <= 2 ids; facts of shapes 0..2 (<= 2 keys, nesting
// <= 2, string/number leaves); patterns: one of the pattern shapes 0,1,2,7 of c05.go.

type vhRefFact struct {
	id   string
	fact Map
	live bool
}

// vhRefPut / vhRefDel keep the reference store as a list (id aliasing stays symbolic:
// equality of ids is a term, not a fork).
func vhRefPut(ref []*vhRefFact, id string, fact Map) []*vhRefFact {
	for _, r := range ref {
		// an earlier entry with the same id is overwritten
		r.live = vand(r.live, id != r.id)
	}
	return append(ref, &vhRefFact{id: id, fact: fact, live: true})
}

func vhRefDel(ref []*vhRefFact, id string) {
	for _, r := range ref {
		r.live = vand(r.live, id != r.id)
	}
}

// vhC02Op applies one history operation to the real state and to the reference.
func vhC02Op(env *vhEnv, ref []*vhRefFact, step int, op int) []*vhRefFact {
	pre := "s" + string(rune('0'+step))
	switch op {
	case 0, 1, 2: // Add fact of shape op under a chosen id
		id := vhIdD(vchoose(2))
		f := vhFactC(pre, op)
		f0 := vsnapshot(map[string]interface{}(f))
		got, err := env.state.Add(env.ctx, id, f)
		vassert(err == nil, "add-succeeds")
		vassert(got == id, "given-id-kept")
		vassert(vdeepEq(map[string]interface{}(f), f0), "caller-fact-unmodified")
		return vhRefPut(ref, id, f)
	case 3: // Rem
		id := vhIdD(vchoose(2))
		_, err := env.state.Rem(env.ctx, id)
		vassert(err == nil, "rem-succeeds")
		vhRefDel(ref, id)
		return ref
	case 4: // Add without id: a fresh id is generated
		f := vhFactC(pre, 0)
		got, err := env.state.Add(env.ctx, "", f)
		vassert(err == nil, "add-succeeds")
		fresh := got != ""
		for _, r := range ref {
			fresh = vand(fresh, got != r.id)
		}
		vassert(fresh, "generated-id-fresh")
		return vhRefPut(ref, got, f)
	case 5: // no-op (shorter history)
		return ref
	}
	vassume(false)
	return ref
}

// vhStripId removes the injected _id property (it is not part of what the caller wrote).
func vhStripId(m Map) map[string]interface{} {
	n := map[string]interface{}{}
	for k, v := range m {
		if k != KW_id {
			n[k] = v
		}
	}
	return n
}

// vhC02Get: Get returns the last write or not-found.
func vhC02Get(env *vhEnv, ref []*vhRefFact) {
	id := vhIdD(vchoose(2))
	got, err := env.state.Get(env.ctx, id)
	if err != nil {
		vassert(vhIsNotFound(err), "get-error-is-notfound")
		for _, r := range ref {
			vassert(vnot(vand(r.live, r.id == id)), "get-finds-stored-fact")
		}
	} else {
		ok := false
		for _, r := range ref {
			ok = vor(ok, vand(vand(r.live, r.id == id), vdeepEq(vhStripId(got), map[string]interface{}(r.fact))))
		}
		vassert(ok, "get-returns-last-write")
	}
}

// vhC02Search: Search returns exactly the stored matching facts with their bindings.
func vhC02Search(env *vhEnv, ref []*vhRefFact, pshape int) {
	vhC02SearchP(env, ref, "p", pshape)
}

func vhC02SearchP(env *vhEnv, ref []*vhRefFact, prefix string, pshape int) {
	vhC02SearchPat(env, ref, vhPatternC(prefix, pshape))
}

func vhC02SearchPat(env *vhEnv, ref []*vhRefFact, p Map) {
	srs, err := env.state.Search(env.ctx, p)
	vassert(err == nil, "search-no-error")
	if err != nil {
		return
	}
	for _, sr := range srs.Found {
		ok := false
		for _, r := range ref {
			want, merr := Matches(env.ctx, p, map[string]interface{}(r.fact))
			vassume(merr == nil)
			if len(want) > 0 {
				ok = vor(ok, vand(vand(r.live, r.id == sr.Id), vhSameBindingss(sr.Bindingss, want)))
			}
		}
		vassert(ok, "search-result-is-stored-matching-fact")
	}
	for _, r := range ref {
		want, merr := Matches(env.ctx, p, map[string]interface{}(r.fact))
		vassume(merr == nil)
		if len(want) == 0 {
			continue
		}
		in := false
		for _, sr := range srs.Found {
			in = vor(in, sr.Id == r.id)
		}
		vassert(vimplies(r.live, in), "stored-matching-fact-is-found")
	}
	for i := 0; i < len(srs.Found); i++ {
		for j := i + 1; j < len(srs.Found); j++ {
			vassert(srs.Found[i].Id != srs.Found[j].Id, "no-duplicate-results")
		}
	}
}

func vhSameBindingss(a, b []Bindings) bool {
	if len(a) != len(b) {
		return false
	}
	ok := true
	for _, x := range a {
		in := false
		for _, y := range b {
			in = vor(in, vdeepEq(map[string]interface{}(x), map[string]interface{}(y)))
		}
		ok = vand(ok, in)
	}
	return ok
}

// VH_C02_get: history op1;op2;op3 then Get, on the given state kind.
func VH_C02_get(kind, op1, op2, op3 int) {
	env := vhNewEnv(kind)
	var ref []*vhRefFact
	ref = vhC02Op(env, ref, 1, op1)
	ref = vhC02Op(env, ref, 2, op2)
	ref = vhC02Op(env, ref, 3, op3)
	vhC02Get(env, ref)
	vreach("end")
}

// VH_C02_search: history op1;op2;op3 then Search with a pattern of shape pshape.
func VH_C02_search(kind, op1, op2, op3, pshape int) {
	env := vhNewEnv(kind)
	var ref []*vhRefFact
	ref = vhC02Op(env, ref, 1, op1)
	ref = vhC02Op(env, ref, 2, op2)
	ref = vhC02Op(env, ref, 3, op3)
	vhC02Search(env, ref, pshape)
	vreach("end")
}

// VH_C02_search2: a search does not change what a later search returns. nfacts one-key
// facts with string values under distinct ids, a first search (checked), then a second
// search with another pattern (checked), then Get. Pattern leaves: a symbolic constant or
// a variable; p2 == 2 is the match-everything pattern.
func VH_C02_search2(kind, nfacts, p1, p2 int) {
	env := vhNewEnv(kind)
	var ref []*vhRefFact
	for i := 0; i < nfacts; i++ {
		f := Map{vhCKey(): vsymStrN("f"+strconv.Itoa(i)+".v", 2)}
		id := "id" + strconv.Itoa(i)
		_, err := env.state.Add(env.ctx, id, f)
		vassert(err == nil, "add-succeeds")
		ref = vhRefPut(ref, id, f)
	}
	pat := func(tag string, kind int) Map {
		switch kind {
		case 0:
			return Map{vhCKey(): vsymStrN(tag+".c", 2)}
		case 1:
			return Map{vhCKey(): "?x"}
		}
		return Map{}
	}
	vhC02SearchPat(env, ref, pat("p", p1))
	vhC02SearchPat(env, ref, pat("q", p2))
	vhC02Get(env, ref)
	vreach("end")
}
