package core

// C06 — acknowledged changes are durable; reload reproduces the live location.
//
// Unit: IndexedState/LinearState.{Add,Rem,Clear,Load}, PrepareFact, Location.{AddFact,
// RemFact,AddRule,RemRule,EnableRule,SetParents,Clear}, NewLocation/init over the real
// MemStorage wrapped by a harness Storage that (i) makes the n-th mutating call fail and
// (ii) drops every write after the n-th call (the process has died), both with symbolic n.
//
//verif:bounds histories <= 3 operations over 2 distinct symbolic ids; facts {K:S}; rules
// {when:{K:L}}; no ttl (see C07's open finding); both state implementations.

type vhFaultStore struct {
	inner   *MemStorage
	calls   int
	failAt  int // the failAt-th mutating call returns an error (0: never)
	crashAt int // mutating calls after the crashAt-th are lost (0: never)
	failed  bool
	crashed bool
}

func (s *vhFaultStore) hit() (fail bool, drop bool) {
	s.calls++
	if s.failAt != 0 && s.calls == s.failAt {
		s.failed = true
		return true, false
	}
	if s.crashAt != 0 && s.calls > s.crashAt {
		s.crashed = true
		return false, true
	}
	return false, false
}

func (s *vhFaultStore) Load(ctx *Context, loc string) ([]Pair, error) { return s.inner.Load(ctx, loc) }
func (s *vhFaultStore) Add(ctx *Context, loc string, data *Pair) error {
	fail, drop := s.hit()
	if fail {
		return NewSyntaxError("injected storage failure")
	}
	if drop {
		return nil
	}
	return s.inner.Add(ctx, loc, data)
}
func (s *vhFaultStore) Remove(ctx *Context, loc string, k []byte) (int64, error) {
	fail, drop := s.hit()
	if fail {
		return 0, NewSyntaxError("injected storage failure")
	}
	if drop {
		return 0, nil
	}
	return s.inner.Remove(ctx, loc, k)
}
func (s *vhFaultStore) Clear(ctx *Context, loc string) (int64, error) {
	fail, drop := s.hit()
	if fail {
		return 0, NewSyntaxError("injected storage failure")
	}
	if drop {
		return 0, nil
	}
	return s.inner.Clear(ctx, loc)
}
func (s *vhFaultStore) Delete(ctx *Context, loc string) error {
	fail, drop := s.hit()
	if fail {
		return NewSyntaxError("injected storage failure")
	}
	if drop {
		return nil
	}
	return s.inner.Delete(ctx, loc)
}
func (s *vhFaultStore) GetStats(ctx *Context, loc string) (StorageStats, error) {
	return StorageStats{}, nil
}
func (s *vhFaultStore) Close(ctx *Context) error  { return nil }
func (s *vhFaultStore) Health(ctx *Context) error { return nil }

type vhC06Env struct {
	kind  int
	ctx   *Context
	fs    *vhFaultStore
	loc   *Location
	state State
}

func vhC06New(kind int) *vhC06Env {
	vsetNow(vhNow)
	ctx := NewContext("c06")
	inner, err := NewMemStorage(ctx)
	vassume(err == nil)
	fs := &vhFaultStore{inner: inner}
	st := vhNewState(ctx, kind, "here", fs)
	loc, err := NewLocation(ctx, "here", st, nil)
	vassume(err == nil)
	return &vhC06Env{kind: kind, ctx: ctx, fs: fs, loc: loc, state: st}
}

// vhC06Reload builds a second location from the surviving storage alone.
func vhC06Reload(e *vhC06Env) *vhEnv {
	return vhOpenEnv(e.kind, NewContext("reload"), e.fs.inner, "here")
}

type vhC06Ref struct {
	id        string
	fact      map[string]interface{} // nil: absent
	dependsOn *vhC06Ref              // the id its deleteWith names
}

// vhC06Op: one location-level operation on id index i. Returns the op's error and the
// id it names.
func vhC06Op(e *vhC06Env, ref []*vhC06Ref, step, op int) (error, *vhC06Ref) {
	pre := "s" + string(rune('0'+step))
	r := ref[vchoose(2)]
	var err error
	switch op {
	case 0: // add / overwrite a fact
		f := vhFactC(pre, 0)
		_, err = e.loc.AddFact(e.ctx, r.id, f)
		if err == nil {
			r.fact = map[string]interface{}(f)
		}
	case 1: // add / overwrite a rule
		rule := vhRule(map[string]interface{}(vhPatternC(pre, 0)), "act")
		_, err = e.loc.AddRule(e.ctx, r.id, rule)
		if err == nil {
			r.fact = map[string]interface{}{"rule": map[string]interface{}(rule)}
		}
	case 2: // remove
		_, err = e.loc.RemFact(e.ctx, r.id)
		if err == nil {
			r.fact = nil
		}
	case 3:
	case 4: // add a fact that names the other id in deleteWith (removed with it)
		other := ref[0]
		if r == ref[0] {
			other = ref[1]
		}
		f := Map{"a": "dep", KW_DeleteWith: []interface{}{other.id}}
		_, err = e.loc.AddFact(e.ctx, r.id, f)
		if err == nil {
			r.fact = map[string]interface{}(f)
			r.dependsOn = other
		}
	case 5: // remove a rule through the rule API
		vassume(vhC06IsRule(r))
		_, err = e.loc.RemRule(e.ctx, r.id)
		if err == nil {
			r.fact = nil
		}
	case 6, 7: // disable / enable a rule (a property write)
		vassume(vhC06IsRule(r))
		err = e.loc.EnableRule(e.ctx, r.id, op == 7)
	default:
		vassume(false)
	}
	if (op == 2 || op == 5) && err == nil {
		// the removal cascades to the fact that depends on the removed id
		for _, x := range ref {
			if x.dependsOn == r && x.fact != nil {
				x.fact = nil
			}
		}
	}
	if op != 4 && op != 6 && op != 7 && err == nil {
		r.dependsOn = nil
	}
	return err, r
}

func vhC06IsRule(r *vhC06Ref) bool {
	if r.fact == nil {
		return false
	}
	_, is := r.fact["rule"]
	return is
}

// vhC06Same: the item under id is observationally the same in a reloaded location.
func vhC06Same(env2 *vhEnv, r *vhC06Ref) bool {
	got, err := env2.state.Get(env2.ctx, r.id)
	if r.fact == nil {
		return err != nil
	}
	if err != nil {
		return false
	}
	return vdeepEq(vhStripId(got), r.fact)
}

// VH_C06_fault: every single storage call of the history made to fail: the operation
// during which it fails reports an error.
func VH_C06_fault(kind, op1, op2 int) {
	e := vhC06New(kind)
	e.fs.failAt = vsymInt("failAt", 1, 4)
	ref := []*vhC06Ref{{id: vhIdD(0)}, {id: vhIdD(1)}}
	for step, op := range []int{op1, op2} {
		before := e.fs.failed
		err, _ := vhC06Op(e, ref, step+1, op)
		if e.fs.failed && !before {
			vassert(err != nil, "storage-failure-reported")
		} else {
			vassert(err == nil, "operation-succeeds-without-fault")
		}
	}
	vreach("end")
}

// VH_C06_fault3: three operations (e.g. fact, dependent fact, removal: the failing call may
// be the dependent's Remove inside the cascade).
func VH_C06_fault3(kind, op1, op2, op3 int) {
	e := vhC06New(kind)
	e.fs.failAt = vsymInt("failAt", 1, 6)
	ref := []*vhC06Ref{{id: vhIdD(0)}, {id: vhIdD(1)}}
	for step, op := range []int{op1, op2, op3} {
		before := e.fs.failed
		err, r := vhC06Op(e, ref, step+1, op)
		if e.fs.failed && !before {
			vassert(err != nil, "storage-failure-reported")
			if op == 0 || op == 1 || op == 4 {
				// a failed write is not an erasure: right after it, what had been acknowledged
				// before is still in storage (the id it names keeps a value if it had one; the
				// other ids are untouched). What later operations do on top of the failed
				// write's in-memory residue is not judged here.
				env2 := vhC06Reload(e)
				for _, x := range ref {
					if x == r {
						if x.fact != nil {
							_, gerr := env2.state.Get(env2.ctx, x.id)
							vassert(gerr == nil, "failed-write-does-not-erase-the-acknowledged-item")
						}
					} else {
						vassert(vhC06Same(env2, x), "failed-write-leaves-other-ids-unchanged")
					}
				}
			}
		} else {
			vassert(err == nil, "operation-succeeds-without-fault")
		}
	}
	vreach("end")
}

// VH_C06_crash: the process dies after an arbitrary storage call; after reload every
// acknowledged operation is reflected and the interrupted one touched only its own id.
func VH_C06_crash(kind, op1, op2, op3 int) {
	e := vhC06New(kind)
	e.fs.crashAt = vsymInt("crashAt", 0, 5)
	ref := []*vhC06Ref{{id: vhIdD(0)}, {id: vhIdD(1)}}
	var interrupted *vhC06Ref
	var oldFact map[string]interface{}
	for step, op := range []int{op1, op2, op3} {
		if op == 3 {
			continue
		}
		// remember the pre-state of the id the op is going to name
		saved := []map[string]interface{}{ref[0].fact, ref[1].fact}
		err, r := vhC06Op(e, ref, step+1, op)
		vassume(err == nil)
		if e.fs.crashed {
			// the op was interrupted: it was not acknowledged
			interrupted = r
			newFact := r.fact
			if r == ref[0] {
				oldFact = saved[0]
			} else {
				oldFact = saved[1]
			}
			_ = newFact
			break
		}
	}
	env2 := vhC06Reload(e)
	for _, r := range ref {
		if r == interrupted {
			// either the old or the new value
			newR := &vhC06Ref{id: r.id, fact: r.fact}
			oldR := &vhC06Ref{id: r.id, fact: oldFact}
			vassert(vor(vhC06Same(env2, newR), vhC06Same(env2, oldR)), "interrupted-op-old-or-new")
		} else {
			vassert(vhC06Same(env2, r), "acknowledged-op-reflected-after-crash")
		}
	}
	vreach("end")
}

// VH_C06_reload: after a successful history the reloaded location is observationally
// identical: Get of every id, a probe search, a probe rule search.
func VH_C06_reload(kind, op1, op2, op3, probe int) {
	e := vhC06New(kind)
	ref := []*vhC06Ref{{id: vhIdD(0)}, {id: vhIdD(1)}}
	for step, op := range []int{op1, op2, op3} {
		err, _ := vhC06Op(e, ref, step+1, op)
		vassert(err == nil, "operation-succeeds-without-fault")
	}
	env2 := vhC06Reload(e)
	for _, r := range ref {
		vassert(vhC06Same(env2, r), "reload-get-equals-live")
		live := &vhEnv{kind: kind, ctx: e.ctx, state: e.state, loc: e.loc}
		vassert(vhC06Same(live, r), "live-get-equals-reference")
	}
	// probe search and rule search agree between live and reloaded
	if probe == 0 {
		vreach("end")
		return
	}
	if probe == 1 {
		pat := vhPatternC("probe", 0)
		s1, err1 := e.state.Search(e.ctx, pat)
		s2, err2 := env2.state.Search(env2.ctx, pat)
		vassert((err1 == nil) == (err2 == nil), "search-error-agrees")
		if err1 == nil && err2 == nil {
			vassert(vhSameFound(s1, s2), "reload-search-equals-live")
		}
		vreach("end")
		return
	}
	ev := vhFactC("ev", 0)
	r1, rerr1 := e.state.FindRules(e.ctx, ev)
	r2, rerr2 := env2.state.FindRules(env2.ctx, ev)
	vassert((rerr1 == nil) == (rerr2 == nil), "findrules-error-agrees")
	if rerr1 == nil && rerr2 == nil {
		ok := len(r1) == len(r2)
		for id := range r1 {
			in := false
			for id2 := range r2 {
				in = vor(in, id == id2)
			}
			ok = vand(ok, in)
		}
		vassert(ok, "reload-findrules-equals-live")
	}
	vreach("end")
}

func vhSameFound(a, b *SearchResults) bool {
	if len(a.Found) != len(b.Found) {
		return false
	}
	ok := true
	for _, x := range a.Found {
		in := false
		for _, y := range b.Found {
			in = vor(in, vand(x.Id == y.Id, vhSameBindingss(x.Bindingss, y.Bindingss)))
		}
		ok = vand(ok, in)
	}
	return ok
}

// VH_C06_crash_flag: the removal of a disabled rule is interrupted after an arbitrary
// number of its storage writes. After reload the rule is either gone (new state) or still
// there with its disabled flag (old state) — never there and enabled: the interrupted
// operation must not leave the rule it names in a state no acknowledged history produced.
func VH_C06_crash_flag(kind int) {
	e := vhC06New(kind)
	in := &vhInterp{}
	rule := vhRule(map[string]interface{}{"a": "?x"}, "act")
	_, err := e.loc.AddRule(e.ctx, "r1", rule)
	vassume(err == nil)
	vassume(e.loc.EnableRule(e.ctx, "r1", false) == nil)
	e.fs.crashAt = e.fs.calls + vsymInt("crashAfter", 0, 3)
	e.loc.RemRule(e.ctx, "r1") // interrupted (or not): not asserted
	env2 := vhC06Reload(e)
	vhInstallInterp(env2, in)
	_, gerr := env2.loc.GetRule(env2.ctx, "r1")
	if gerr == nil {
		enabled, eerr := env2.loc.RuleEnabled(env2.ctx, "r1")
		vassert(eerr == nil && !enabled, "interrupted-op-old-or-new")
		_, cond := env2.loc.ProcessEvent(env2.ctx, Map{"a": "1"})
		vassert(cond == nil && len(in.execs) == 0, "interrupted-op-old-or-new")
	}
	vreach("end")
}

// VH_C06_retry: a property write (disabling a rule, setting the parents) whose storage call
// fails is reported as an error; the client tries again until the operation is
// acknowledged. What was acknowledged is in storage: the reloaded location shows it.
func VH_C06_retry(kind, what int) {
	e := vhC06New(kind)
	_, err := e.loc.AddRule(e.ctx, "r", vhRule(map[string]interface{}{"a": "?x"}, "act"))
	vassume(err == nil)
	// any of the next storage calls fails (or none: 0 is "never")
	n := vsymInt("failAfter", 0, 2)
	if n > 0 {
		e.fs.failAt = e.fs.calls + n
	}
	op := func() error {
		if what == 0 {
			return e.loc.EnableRule(e.ctx, "r", false)
		}
		_, err := e.loc.SetParents(e.ctx, []string{"up"})
		return err
	}
	acked := false
	for try := 0; try < 3 && !acked; try++ {
		before := e.fs.failed
		err := op()
		if e.fs.failed && !before {
			vassert(err != nil, "storage-failure-reported")
		}
		acked = err == nil
	}
	vassert(acked, "operation-succeeds-without-fault")
	env2 := vhC06Reload(e)
	if what == 0 {
		live, lerr := e.loc.RuleEnabled(e.ctx, "r")
		re, rerr := env2.loc.RuleEnabled(env2.ctx, "r")
		vassert(lerr == nil && !live, "acknowledged-operation-visible")
		vassert(rerr == nil && !re, "acknowledged-operation-survives-reload")
	} else {
		ps, perr := env2.loc.GetParents(env2.ctx)
		vassert(perr == nil && len(ps) == 1 && ps[0] == "up", "acknowledged-operation-survives-reload")
	}
	vreach("end")
}
