package core

// C05 — pattern matching is sound and complete for partial (subset) matching.
//
// Unit: core.Match/Matches -> CastMatcher -> cast -> SheensMatcher -> sheens
// match.Matcher.{Match,match,mapcatMatch,arraycatMatch,matchWithBindingss,getVariable,
// inequal,checkForBadPropertyVariables}, fudge, combine, Bindings.Copy.
//
// Oracle: vhRef, the manual's definition written as a guarded enumeration: it returns
// every candidate binding set together with the (symbolic) condition under which it
// is a literal partial match. The assertion is set equality between what the real
// matcher returned on this path and the guarded candidates.
//
//verif:bounds maps <= 2 keys, nesting <= 2, arrays <= 2 elements, <= 2 variables;
// strings printable ASCII len <= 6; numbers integral in [-3,3].
// Fragment (documented): pattern keys and constants do not start with '?'; data
// strings do not start with '?'; arrays hold pairwise distinct elements and at most
// one variable; no inequality-prefixed variables.

type vhRes struct {
	c bool
	b map[string]interface{}
}

func vhCopyB(b map[string]interface{}) map[string]interface{} {
	n := make(map[string]interface{}, len(b)+1)
	for k, v := range b {
		n[k] = v
	}
	return n
}

// vhBindVar extends each guarded binding with x -> d (or checks equality if bound).
func vhBindVar(x string, d interface{}, in []vhRes) []vhRes {
	if x == "?" {
		return in
	}
	var out []vhRes
	for _, r := range in {
		if old, have := r.b[x]; have {
			out = append(out, vhRes{vand(r.c, vdeepEq(old, d)), r.b})
		} else {
			nb := vhCopyB(r.b)
			nb[x] = d
			out = append(out, vhRes{r.c, nb})
		}
	}
	return out
}

func vhGuard(in []vhRes, c bool) []vhRes {
	var out []vhRes
	for _, r := range in {
		out = append(out, vhRes{vand(r.c, c), r.b})
	}
	return out
}

// vhRef: reference partial matcher (guarded candidates).
func vhRef(p, d interface{}, in []vhRes) []vhRes {
	switch pv := p.(type) {
	case nil:
		return vhGuard(in, d == nil)
	case bool:
		dv, ok := d.(bool)
		if !ok {
			return nil
		}
		return vhGuard(in, pv == dv)
	case float64:
		dv, ok := d.(float64)
		if !ok {
			return nil
		}
		return vhGuard(in, pv == dv)
	case string:
		if x, isVar := vhIsVarString(pv); isVar {
			return vhBindVar(x, d, in)
		}
		dv, ok := d.(string)
		if !ok {
			return nil
		}
		return vhGuard(in, pv == dv)
	case map[string]interface{}:
		dm, ok := d.(map[string]interface{})
		if !ok {
			return nil
		}
		cur := in
		for pk, pval := range pv {
			var next []vhRes
			for dk, dval := range dm {
				next = append(next, vhRef(pval, dval, vhGuard(cur, pk == dk))...)
			}
			cur = next
		}
		return cur
	case []interface{}:
		da, ok := d.([]interface{})
		if !ok {
			return nil
		}
		// constants must each be found; one variable or one map element ranges over
		// the data elements not equal to any constant.
		var consts []interface{}
		var variable string
		var sub interface{}
		for _, e := range pv {
			if x, isVar := vhIsVarString(e); isVar {
				variable = x
			} else if _, isMap := e.(map[string]interface{}); isMap {
				sub = e
			} else {
				consts = append(consts, e)
			}
		}
		found := true
		for _, c := range consts {
			any := false
			for _, e := range da {
				any = vor(any, vdeepEq(c, e))
			}
			found = vand(found, any)
		}
		cur := vhGuard(in, found)
		if sub != nil {
			var next []vhRes
			for _, e := range da {
				next = append(next, vhRef(sub, e, cur)...)
			}
			cur = next
		}
		if variable != "" {
			var next []vhRes
			for _, e := range da {
				free := true
				for _, c := range consts {
					free = vand(free, !vdeepEq(c, e))
				}
				if _, isMap := e.(map[string]interface{}); isMap && sub != nil {
					// with one map pattern element and one variable the variable may
					// not take the element the map pattern consumed: outside the fragment
					continue
				}
				next = append(next, vhBindVar(variable, e, vhGuard(cur, free))...)
			}
			cur = next
		}
		return cur
	}
	return nil
}

// vhSetEq: got (concrete list on this path) equals the guarded candidate set.
func vhSetEq(got []Bindings, want []vhRes) bool {
	ok := true
	for _, g := range got {
		gm := map[string]interface{}(g)
		in := false
		for _, w := range want {
			in = vor(in, vand(w.c, vdeepEq(gm, w.b)))
		}
		ok = vand(ok, in)
	}
	for _, w := range want {
		in := false
		for _, g := range got {
			in = vor(in, vdeepEq(map[string]interface{}(g), w.b))
		}
		ok = vand(ok, vimplies(w.c, in))
	}
	return ok
}

func vhNoDup(got []Bindings) bool {
	ok := true
	for i := 0; i < len(got); i++ {
		for j := i + 1; j < len(got); j++ {
			ok = vand(ok, !vdeepEq(map[string]interface{}(got[i]), map[string]interface{}(got[j])))
		}
	}
	return ok
}

func vhC05Pattern(shape int) map[string]interface{} { return vhC05PatternN(shape, "p") }

// vhC05PatternQ: a second, independently named pattern.
func vhC05PatternQ(shape int) map[string]interface{} { return vhC05PatternN(shape, "q") }

func vhC05PatternN(shape int, prefix string) map[string]interface{} {
	return vhPatternB(shape, &vhB{prefix: prefix})
}

func vhPatternB(shape int, b *vhB) map[string]interface{} {
	switch shape {
	case 0:
		return map[string]interface{}{b.key(): b.leaf("?x", "?")}
	case 1:
		k1, k2 := b.key(), b.key()
		vhDistinct(k1, k2)
		return map[string]interface{}{k1: b.leaf("?x"), k2: b.leaf("?x", "?y")}
	case 2:
		return map[string]interface{}{b.key(): map[string]interface{}{b.key(): b.leaf("?x")}}
	case 3:
		return map[string]interface{}{b.key(): []interface{}{b.leaf("?x")}}
	case 4:
		if vchoose(2) == 0 {
			c, l := b.pair()
			return map[string]interface{}{b.key(): []interface{}{c, l}}
		}
		vassume(!b.noVarConst)
		return map[string]interface{}{b.key(): []interface{}{b.scalar2(), "?x"}}
	case 5:
		k1, k2 := b.key(), b.key()
		vhDistinct(k1, k2)
		return map[string]interface{}{k1: b.leaf2("?x"), k2: map[string]interface{}{b.key(): b.leaf2("?x", "?y")}}
	case 6:
		return map[string]interface{}{b.key(): []interface{}{map[string]interface{}{b.key(): b.leaf2("?x")}}}
	case 7:
		return map[string]interface{}{}
	case 8:
		return map[string]interface{}{b.key(): map[string]interface{}{}}
	case 9:
		return map[string]interface{}{b.key(): []interface{}{}}
	case 10:
		k1, k2 := b.key(), b.key()
		vhDistinct(k1, k2)
		return map[string]interface{}{k1: map[string]interface{}{}, k2: b.leaf2("?x")}
	}
	vassume(false)
	return nil
}

func vhDataStr(b *vhB) interface{} { return b.scalar() }

func vhC05Data(shape int) map[string]interface{} { return vhDataB(shape, &vhB{prefix: "d"}) }

func vhDataB(shape int, b *vhB) map[string]interface{} {
	switch shape {
	case 0:
		return map[string]interface{}{b.anyKey(): b.scalar()}
	case 1:
		k1, k2 := b.anyKey(), b.anyKey()
		vhDistinct(k1, k2)
		return map[string]interface{}{k1: b.scalar(), k2: b.scalar()}
	case 2:
		return map[string]interface{}{b.anyKey(): map[string]interface{}{b.anyKey(): b.scalar()}}
	case 3:
		return map[string]interface{}{b.anyKey(): []interface{}{b.scalar()}}
	case 4:
		e1, e2 := b.pair()
		return map[string]interface{}{b.anyKey(): []interface{}{e1, e2}}
	case 5:
		k1, k2 := b.anyKey(), b.anyKey()
		vhDistinct(k1, k2)
		return map[string]interface{}{k1: b.scalar2(), k2: map[string]interface{}{b.anyKey(): b.scalar2()}}
	case 6:
		k1, k2 := b.anyKey(), b.anyKey()
		vassume(!b.sortable) // two maps in one array cannot be sorted by the pattern index
		m1 := map[string]interface{}{k1: b.scalar2()}
		m2 := map[string]interface{}{k2: b.scalar2()}
		vassume(!vdeepEq(m1, m2)) // arrays are sets: elements pairwise distinct
		return map[string]interface{}{b.anyKey(): []interface{}{m1, m2}}
	case 7:
		return map[string]interface{}{}
	case 8:
		return map[string]interface{}{b.anyKey(): map[string]interface{}{}}
	case 9:
		return map[string]interface{}{b.anyKey(): []interface{}{}}
	case 10:
		k1, k2 := b.anyKey(), b.anyKey()
		vhDistinct(k1, k2)
		return map[string]interface{}{k1: []interface{}{}, k2: b.scalar2()}
	case 11:
		k1, k2 := b.anyKey(), b.anyKey()
		vhDistinct(k1, k2)
		return map[string]interface{}{k1: map[string]interface{}{}, k2: b.scalar2()}
	case 12:
		k1, k2 := b.anyKey(), b.anyKey()
		vhDistinct(k1, k2)
		return map[string]interface{}{k1: []interface{}{b.scalar2()}, k2: b.scalar2()}
	}
	vassume(false)
	return nil
}

// VH_C05_match: soundness, completeness, inputs unmodified, no error.
func VH_C05_match(pshape, dshape int) {
	p := vhC05Pattern(pshape)
	d := vhC05Data(dshape)
	p0 := vsnapshot(p)
	d0 := vsnapshot(d)

	got, err := Matches(nil, p, d)

	vassert(err == nil, "no-error-in-fragment")
	want := vhRef(p, d, []vhRes{{true, map[string]interface{}{}}})
	vassert(vhSetEq(got, want), "sound-and-complete")
	vassert(vhNoDup(got), "no-duplicate-bindings")
	vassert(vdeepEq(p, p0), "pattern-unmodified")
	vassert(vdeepEq(d, d0), "data-unmodified")
	vreach("end")
}

// VH_C05_init: with caller-supplied initial bindings.
func VH_C05_init(pshape, dshape int) {
	p := vhC05Pattern(pshape)
	d := vhC05Data(dshape)
	ib := &vhB{prefix: "b"}
	bs := Bindings{}
	switch vchoose(3) {
	case 0:
		bs["?x"] = ib.scalar2()
	case 1:
		bs["?z"] = ib.scalar2()
	case 2:
		bs["?x"] = ib.scalar2()
		bs["?y"] = ib.scalar2()
	}
	bs0 := vsnapshot(map[string]interface{}(bs))
	p0 := vsnapshot(p)
	d0 := vsnapshot(d)

	got, err := Match(nil, p, d, bs)

	vassert(err == nil, "no-error-in-fragment")
	want := vhRef(p, d, []vhRes{{true, vhCopyB(bs)}})
	vassert(vhSetEq(got, want), "sound-and-complete")
	vassert(vdeepEq(map[string]interface{}(bs), bs0), "initial-bindings-unmodified")
	vassert(vdeepEq(p, p0), "pattern-unmodified")
	vassert(vdeepEq(d, d0), "data-unmodified")
	vreach("end")
}

// ---- Go-typed inputs that must be cast (core.Map, []string, []Map, ints) -------------

// vhNorm converts Go-typed containers and ints to the generic JSON form (the reference
// reading of "must be cast").
func vhNorm(x interface{}) interface{} {
	switch v := x.(type) {
	case Map:
		n := map[string]interface{}{}
		for k, e := range v {
			n[k] = vhNorm(e)
		}
		return n
	case map[string]interface{}:
		n := map[string]interface{}{}
		for k, e := range v {
			n[k] = vhNorm(e)
		}
		return n
	case []interface{}:
		n := make([]interface{}, len(v))
		for i, e := range v {
			n[i] = vhNorm(e)
		}
		return n
	case []string:
		n := make([]interface{}, len(v))
		for i, e := range v {
			n[i] = e
		}
		return n
	case []Map:
		n := make([]interface{}, len(v))
		for i, e := range v {
			n[i] = vhNorm(e)
		}
		return n
	case int:
		return float64(v)
	}
	return x
}

// VH_C05_typed: the same pattern/data pair in a Go-typed spelling must match exactly like
// its generic spelling.
func VH_C05_typed(variant int) {
	b := &vhB{prefix: "t", lite: true}
	s1, s2 := b.str(), b.str()
	vassume(s1 != s2)
	n1 := b.num()
	var p, d interface{}
	switch variant {
	case 0: // core.Map below a generic map (data)
		p = map[string]interface{}{"d": map[string]interface{}{"k": "?x"}}
		d = map[string]interface{}{"d": Map{"k": s1, "o": n1}}
	case 1: // []string below a generic map (data)
		p = map[string]interface{}{"d": []interface{}{"?x"}}
		d = map[string]interface{}{"d": []string{s1, s2}}
	case 2: // core.Map at the top, generic below, core.Map below that
		p = Map{"d": map[string]interface{}{"k": map[string]interface{}{"z": "?x"}}}
		d = Map{"d": map[string]interface{}{"k": Map{"z": s1}}}
	case 3: // core.Map below a generic map (pattern)
		p = map[string]interface{}{"d": Map{"k": "?x"}}
		d = map[string]interface{}{"d": map[string]interface{}{"k": s1}}
	case 4: // []Map in data, below a generic map
		p = map[string]interface{}{"d": []interface{}{map[string]interface{}{"k": "?x"}}}
		d = map[string]interface{}{"d": []Map{{"k": s1}, {"k": s2}}}
	case 5: // all core.Map / []string
		p = Map{"d": Map{"k": []string{"?x"}}}
		d = Map{"d": Map{"k": []string{s1, s2}}}
	case 6: // Go int as a map value (cast by the matcher's fudge)
		p = map[string]interface{}{"n": "?x", "m": 3}
		d = map[string]interface{}{"n": s1, "m": 3.0}
	case 7: // []string in the pattern
		p = map[string]interface{}{"d": []string{s1}}
		d = map[string]interface{}{"d": []interface{}{s1, s2}}
	}
	got, err := Matches(nil, p, d)
	vassert(err == nil, "no-error-in-fragment")
	want := vhRef(vhNorm(p), vhNorm(d), []vhRes{{true, map[string]interface{}{}}})
	// bindings may carry the uncast values: compare after normalising them
	var gotN []Bindings
	for _, g := range got {
		gotN = append(gotN, Bindings(vhNorm(map[string]interface{}(g)).(map[string]interface{})))
	}
	vassert(vhSetEq(gotN, want), "typed-input-matches-like-generic")
	vreach("end")
}

// VH_C05_repeated_compound: a variable occurring twice over compound (map) values must
// find EQUAL values. (Witness harness of an open finding: the matcher re-matches the
// first binding as a partial pattern, so the answer depends on the map iteration order.)
// VH_C05_typed_init: the caller's initial bindings hold Go-typed containers under a
// variable the pattern does not mention; after the call the caller's map holds the very
// same values, with their Go types (a library caller may rely on them).
func VH_C05_typed_init(variant int) {
	b := &vhB{prefix: "t", lite: true}
	s1, s2 := b.str(), b.str()
	bs := Bindings{}
	switch variant {
	case 0:
		bs["?z"] = Map{"k": s1}
	case 1:
		bs["?z"] = []string{s1, s2}
	case 2:
		bs["?z"] = map[string]interface{}{"d": Map{"k": s1}}
	case 3:
		bs["?z"] = []Map{{"k": s1}}
	}
	p := map[string]interface{}{"a": "?x"}
	d := map[string]interface{}{"a": s2}
	got, err := Match(nil, p, d, bs)
	vassert(err == nil, "no-error-in-fragment")
	vassert(len(got) == 1, "sound-and-complete")
	ok := false
	switch variant {
	case 0:
		m, is := bs["?z"].(Map)
		ok = is && len(m) == 1 && vdeepEq(m["k"], s1)
	case 1:
		xs, is := bs["?z"].([]string)
		ok = is && len(xs) == 2 && xs[0] == s1 && xs[1] == s2
	case 2:
		m, is := bs["?z"].(map[string]interface{})
		if is {
			in, is2 := m["d"].(Map)
			ok = is2 && len(in) == 1 && vdeepEq(in["k"], s1)
		}
	case 3:
		xs, is := bs["?z"].([]Map)
		ok = is && len(xs) == 1 && vdeepEq(xs[0]["k"], s1)
	}
	vassert(ok, "initial-bindings-unmodified")
	vassert(len(bs) == 1, "initial-bindings-unmodified")
	vreach("end")
}

func VH_C05_repeated_compound() {
	b := &vhB{prefix: "d", lite: true}
	s1, s2, s3 := b.str(), b.str(), b.str()
	p := map[string]interface{}{"k1": "?x", "k2": "?x"}
	d := map[string]interface{}{
		"k1": map[string]interface{}{"a": s1},
		"k2": map[string]interface{}{"a": s2, "b": s3},
	}
	got, err := Matches(nil, p, d)
	vassert(err == nil, "no-error-in-fragment")
	// the two values are different maps (one has an extra key): no binding can exist
	vassert(len(got) == 0, "repeated-variable-needs-equal-values")
	vreach("end")
}
