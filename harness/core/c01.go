package core

// C01 — event dispatch evaluates exactly the rules whose `when` matches.
//
// O1 (index completeness). Unit: PatternIndex.{AddPatternMap,RemPatternMap,
// SearchPatternsMap} (mod, searchPairs, picast, mapToPairs, SortValues, IsSortable) and
// Matches. For every pattern/event shape the solver decides that a pattern the matcher
// accepts for the event is returned by the index search, and that a removed pattern is
// not returned.
//
//verif:bounds pattern shapes 0..7 x event shapes 0..7 of c05.go (maps <= 2 keys, nesting
// <= 2, arrays <= 2), 1..2 patterns; strings len <= 6; numbers integral in [-3,3].

// vhMultiLeaf: shapes with two scalar leaves explore two kinds per leaf instead of four.
func vhMultiLeaf(shape int) bool { return shape == 1 || shape == 4 || shape == 5 || shape == 6 }

func vhEventOK(e map[string]interface{}) {
	// documented fragment for events: keys and string values are not variables
	for k, v := range e {
		vassume(!IsVariable(k))
		switch vv := v.(type) {
		case map[string]interface{}:
			vhEventOK(vv)
		case []interface{}:
			for _, x := range vv {
				if m, ok := x.(map[string]interface{}); ok {
					vhEventOK(m)
				}
			}
		}
	}
}

// VH_C01_index1: one pattern, one event.
func VH_C01_index1(pshape, eshape int) {
	p := vhPatternB(pshape, &vhB{prefix: "p", plain: true, lite: vhMultiLeaf(pshape), sortable: true, noVarConst: true})
	e := vhDataB(eshape, &vhB{prefix: "d", plain: true, lite: vhMultiLeaf(eshape), sortable: true})
	vhEventOK(e)
	idx := NewPatternIndex()
	errA := idx.AddPatternMap(nil, p, "r1")
	vassert(errA == nil, "add-no-error")
	if errA != nil {
		vreach("end")
		return
	}
	bss, errM := Matches(nil, p, e)
	vassume(errM == nil)
	ids, errS := idx.SearchPatternsMap(nil, e)
	vassert(errS == nil, "search-no-error")
	if errS == nil && len(bss) > 0 {
		vassert(ids.Contains("r1"), "matching-pattern-found")
	}
	errR := idx.RemPatternMap(nil, p, "r1")
	vassert(errR == nil, "rem-no-error")
	ids2, errS2 := idx.SearchPatternsMap(nil, e)
	if errS2 == nil {
		vassert(!ids2.Contains("r1"), "removed-pattern-not-found")
	}
	vreach("end")
}

// VH_C01_index2: two patterns (the second one is added, possibly removed again) must not
// disturb the first.
func VH_C01_index2(pshape, qshape, eshape int) {
	p := vhPatternB(pshape, &vhB{prefix: "p", plain: true, lite: true, sortable: true, noVarConst: true})
	q := vhPatternB(qshape, &vhB{prefix: "q", plain: true, lite: true, sortable: true, noVarConst: true})
	e := vhDataB(eshape, &vhB{prefix: "d", plain: true, lite: true, sortable: true})
	vhEventOK(e)
	idx := NewPatternIndex()
	vassume(idx.AddPatternMap(nil, p, "r1") == nil)
	vassume(idx.AddPatternMap(nil, q, "r2") == nil)
	removed := vchoose(2) == 1
	if removed {
		vassert(idx.RemPatternMap(nil, q, "r2") == nil, "rem-no-error")
	}
	bp, errP := Matches(nil, p, e)
	vassume(errP == nil)
	bq, errQ := Matches(nil, q, e)
	vassume(errQ == nil)
	ids, errS := idx.SearchPatternsMap(nil, e)
	vassert(errS == nil, "search-no-error")
	if errS == nil {
		if len(bp) > 0 {
			vassert(ids.Contains("r1"), "matching-pattern-found")
		}
		if len(bq) > 0 && !removed {
			vassert(ids.Contains("r2"), "matching-pattern-found")
		}
		if removed {
			vassert(!ids.Contains("r2"), "removed-pattern-not-found")
		}
	}
	vreach("end")
}


// ---- witness harnesses of the open findings (they must stay violated) ----

// VH_C01_witness_unsortable_event: an event holding an array the index cannot sort
// (mixed scalar kinds, or two maps) under a key some rule mentions makes the whole rule
// search fail.
func VH_C01_witness_unsortable_event(kind int) {
	b := &vhB{prefix: "p", plain: true}
	k := b.key()
	p := map[string]interface{}{k: b.str()}
	d := &vhB{prefix: "d", plain: true}
	var arr []interface{}
	if kind == 0 {
		arr = []interface{}{d.str(), d.num()}
	} else {
		arr = []interface{}{map[string]interface{}{d.key(): d.num()}, map[string]interface{}{d.key(): d.str()}}
	}
	e := map[string]interface{}{k: arr}
	idx := NewPatternIndex()
	vassume(idx.AddPatternMap(nil, p, "r1") == nil)
	_, errS := idx.SearchPatternsMap(nil, e)
	vassert(errS == nil, "search-no-error")
	vreach("end")
}

// VH_C01_witness_array_var: a when-array holding a constant and a variable is indexed
// in sorted order, and the search consumes event elements in sorted order too, so the
// variable cannot take an element that sorts before the constant.
func VH_C01_witness_array_var() {
	b := &vhB{prefix: "p", plain: true}
	k := b.key()
	c := b.str()
	p := map[string]interface{}{k: []interface{}{c, "?x"}}
	d := &vhB{prefix: "d", plain: true}
	e1, e2 := d.str(), d.str()
	vassume(e1 != e2)
	e := map[string]interface{}{k: []interface{}{e1, e2}}
	idx := NewPatternIndex()
	vassume(idx.AddPatternMap(nil, p, "r1") == nil)
	bss, errM := Matches(nil, p, e)
	vassume(errM == nil)
	ids, errS := idx.SearchPatternsMap(nil, e)
	vassume(errS == nil)
	if len(bss) > 0 {
		vassert(ids.Contains("r1"), "matching-pattern-found")
	}
	vreach("end")
}
