package core

// C01 — event dispatch evaluates exactly the rules whose `when` matches.
//
// O1 (index completeness). Unit: PatternIndex.{AddPatternMap,RemPatternMap,
// SearchPatternsMap} (mod, searchPairs, picast, mapToPairs, SortValues, IsSortable) and
// Matches. For every pattern/event shape the solver decides that a pattern the matcher
// accepts for the event is returned by the index search, and that a removed pattern is
// not returned.
//
//verif:bounds pattern shapes 0..7 x event shapes 0..7 of c05.go (maps <= 2 keys, nesting
// <= 2, arrays <= 2), 1..2 patterns; strings len <= 6; numbers integral in [-3,3].

// vhMultiLeaf: shapes with two scalar leaves explore two kinds per leaf instead of four.
func vhMultiLeaf(shape int) bool { return shape == 1 || shape == 4 || shape == 5 || shape == 6 }

func vhEventOK(e map[string]interface{}) {
	// documented fragment for events: keys and string values are not variables
	for k, v := range e {
		vassume(!IsVariable(k))
		switch vv := v.(type) {
		case map[string]interface{}:
			vhEventOK(vv)
		case []interface{}:
			for _, x := range vv {
				if m, ok := x.(map[string]interface{}); ok {
					vhEventOK(m)
				}
			}
		}
	}
}

// VH_C01_index1: one pattern, one event.
func VH_C01_index1(pshape, eshape int) {
	p := vhPatternB(pshape, &vhB{prefix: "p", plain: true, lite: vhMultiLeaf(pshape), sortable: true, noVarConst: true})
	e := vhDataB(eshape, &vhB{prefix: "d", plain: true, lite: vhMultiLeaf(eshape), sortable: true})
	vhEventOK(e)
	idx := NewPatternIndex()
	errA := idx.AddPatternMap(nil, p, "r1")
	vassert(errA == nil, "add-no-error")
	if errA != nil {
		vreach("end")
		return
	}
	bss, errM := Matches(nil, p, e)
	vassume(errM == nil)
	ids, errS := idx.SearchPatternsMap(nil, e)
	vassert(errS == nil, "search-no-error")
	if errS == nil && len(bss) > 0 {
		vassert(ids.Contains("r1"), "matching-pattern-found")
	}
	errR := idx.RemPatternMap(nil, p, "r1")
	vassert(errR == nil, "rem-no-error")
	ids2, errS2 := idx.SearchPatternsMap(nil, e)
	if errS2 == nil {
		vassert(!ids2.Contains("r1"), "removed-pattern-not-found")
	}
	vreach("end")
}

// VH_C01_index2: two patterns (the second one is added, possibly removed again) must not
// disturb the first.
func VH_C01_index2(pshape, qshape, eshape int) {
	p := vhPatternB(pshape, &vhB{prefix: "p", plain: true, lite: true, sortable: true, noVarConst: true})
	q := vhPatternB(qshape, &vhB{prefix: "q", plain: true, lite: true, sortable: true, noVarConst: true})
	e := vhDataB(eshape, &vhB{prefix: "d", plain: true, lite: true, sortable: true})
	vhEventOK(e)
	idx := NewPatternIndex()
	vassume(idx.AddPatternMap(nil, p, "r1") == nil)
	vassume(idx.AddPatternMap(nil, q, "r2") == nil)
	removed := vchoose(2) == 1
	if removed {
		vassert(idx.RemPatternMap(nil, q, "r2") == nil, "rem-no-error")
	}
	bp, errP := Matches(nil, p, e)
	vassume(errP == nil)
	bq, errQ := Matches(nil, q, e)
	vassume(errQ == nil)
	ids, errS := idx.SearchPatternsMap(nil, e)
	vassert(errS == nil, "search-no-error")
	if errS == nil {
		if len(bp) > 0 {
			vassert(ids.Contains("r1"), "matching-pattern-found")
		}
		if len(bq) > 0 && !removed {
			vassert(ids.Contains("r2"), "matching-pattern-found")
		}
		if removed {
			vassert(!ids.Contains("r2"), "removed-pattern-not-found")
		}
	}
	vreach("end")
}

// ---- witness harnesses of the open findings (they must stay violated) ----

// VH_C01_witness_unsortable_event: an event holding an array the index cannot sort
// (mixed scalar kinds, or two maps) under a key some rule mentions makes the whole rule
// search fail.
func VH_C01_witness_unsortable_event(kind int) {
	b := &vhB{prefix: "p", plain: true}
	k := b.key()
	p := map[string]interface{}{k: b.str()}
	d := &vhB{prefix: "d", plain: true}
	var arr []interface{}
	if kind == 0 {
		arr = []interface{}{d.str(), d.num()}
	} else {
		arr = []interface{}{map[string]interface{}{d.key(): d.num()}, map[string]interface{}{d.key(): d.str()}}
	}
	e := map[string]interface{}{k: arr}
	idx := NewPatternIndex()
	vassume(idx.AddPatternMap(nil, p, "r1") == nil)
	_, errS := idx.SearchPatternsMap(nil, e)
	vassert(errS == nil, "search-no-error")
	vreach("end")
}

// VH_C01_witness_array_var: a when-array holding a constant and a variable is indexed
// in sorted order, and the search consumes event elements in sorted order too, so the
// variable cannot take an element that sorts before the constant.
func VH_C01_witness_array_var() {
	b := &vhB{prefix: "p", plain: true}
	k := b.key()
	c := b.str()
	p := map[string]interface{}{k: []interface{}{c, "?x"}}
	d := &vhB{prefix: "d", plain: true}
	e1, e2 := d.str(), d.str()
	vassume(e1 != e2)
	e := map[string]interface{}{k: []interface{}{e1, e2}}
	idx := NewPatternIndex()
	vassume(idx.AddPatternMap(nil, p, "r1") == nil)
	bss, errM := Matches(nil, p, e)
	vassume(errM == nil)
	ids, errS := idx.SearchPatternsMap(nil, e)
	vassume(errS == nil)
	if len(bss) > 0 {
		vassert(ids.Contains("r1"), "matching-pattern-found")
	}
	vreach("end")
}

// ---- O2: state bookkeeping of rules --------------------------------------------------
//
// Unit: IndexedState/LinearState.{Add,Rem,Clear,FindRules} (add, rem, indexRule,
// unindexRule, GetRulePatterns, ExtractRule, PrepareFact, doFindRules, expire) over the
// real MemStorage. History <= 3 of {add rule, add plain fact, Rem, Clear} with ids chosen
// from 2 distinct symbolic ids (re-use = overwrite) and symbolic when-leaves, then one
// symbolic event.
//
//verif:bounds history <= 3; when-patterns {K:L} / {a:L,b:L} with K in {a,b}; events
// {K:S} / {a:S,b:S}; leaves: strings len<=6 or integral numbers.

type vhRefRule struct {
	id   string
	when map[string]interface{} // nil: a plain fact is stored under id
	live bool
}

func vhRuleFact(when map[string]interface{}) Map {
	return Map{"rule": map[string]interface{}{
		"when":   map[string]interface{}{"pattern": when},
		"action": map[string]interface{}{"code": "1"},
	}}
}

func vhRefSet(ref []*vhRefRule, id string, when map[string]interface{}) []*vhRefRule {
	for _, r := range ref {
		r.live = vand(r.live, id != r.id)
	}
	return append(ref, &vhRefRule{id: id, when: when, live: true})
}

func vhC01Op(env *vhEnv, ref []*vhRefRule, step, op int) []*vhRefRule {
	pre := "s" + string(rune('0'+step))
	switch op {
	case 0, 1: // add a rule with a when of shape op
		id := vhIdD(vchoose(2))
		when := map[string]interface{}(vhPatternC(pre, op))
		_, err := env.state.Add(env.ctx, id, vhRuleFact(when))
		vassert(err == nil, "add-rule-succeeds")
		return vhRefSet(ref, id, when)
	case 2: // add a plain fact (possibly over a rule)
		id := vhIdD(vchoose(2))
		_, err := env.state.Add(env.ctx, id, vhFactC(pre, 0))
		vassert(err == nil, "add-fact-succeeds")
		return vhRefSet(ref, id, nil)
	case 3: // remove
		id := vhIdD(vchoose(2))
		_, err := env.state.Rem(env.ctx, id)
		vassert(err == nil, "rem-succeeds")
		for _, r := range ref {
			r.live = vand(r.live, id != r.id)
		}
		return ref
	case 4: // clear
		vassert(env.state.Clear(env.ctx) == nil, "clear-succeeds")
		for _, r := range ref {
			r.live = false
		}
		return ref
	case 5:
		return ref
	case 6: // add a scheduled rule (possibly over an event rule): events never dispatch it
		id := vhIdD(vchoose(2))
		f := Map{"rule": map[string]interface{}{
			"schedule": "+1s",
			"action":   map[string]interface{}{"code": "1"},
		}}
		_, err := env.state.Add(env.ctx, id, f)
		vassert(err == nil, "add-rule-succeeds")
		return vhRefSet(ref, id, nil)
	case 7: // add a rule whose when has an optional property ("??o" matches with or without it)
		id := vhIdD(vchoose(2))
		b := &vhB{prefix: pre, lite: true}
		when := map[string]interface{}{vhCKey(): b.leaf("?x"), vhCKey(): "??o"}
		_, err := env.state.Add(env.ctx, id, vhRuleFact(when))
		vassert(err == nil, "add-rule-succeeds")
		return vhRefSet(ref, id, when)
	}
	vassume(false)
	return ref
}

// VH_C01_rules: after the history, FindRules(event) neither fails nor loses a live
// matching rule, and everything it returns is a live rule with its current body; after
// the dispatcher's re-match it is exactly the live matching rules.
func VH_C01_rules(kind, op1, op2, op3, eshape int) {
	env := vhNewEnv(kind)
	var ref []*vhRefRule
	ref = vhC01Op(env, ref, 1, op1)
	ref = vhC01Op(env, ref, 2, op2)
	ref = vhC01Op(env, ref, 3, op3)
	ev := vhFactC("e", eshape)
	found, err := env.state.FindRules(env.ctx, ev)
	vassert(err == nil, "findrules-no-error")
	if err != nil {
		vreach("end")
		return
	}
	// completeness
	for _, r := range ref {
		if r.when == nil {
			continue
		}
		bss, merr := Matches(env.ctx, r.when, map[string]interface{}(ev))
		vassume(merr == nil)
		if len(bss) == 0 {
			continue
		}
		in := false
		for id := range found {
			in = vor(in, id == r.id)
		}
		vassert(vimplies(r.live, in), "live-matching-rule-found")
	}
	// soundness: every returned id is a live rule; its body is the current one
	for id, body := range found {
		ok := false
		for _, r := range ref {
			if r.when == nil {
				continue
			}
			w, _ := body["when"].(map[string]interface{})
			cur := w != nil && vdeepEq(w["pattern"], r.when)
			ok = vor(ok, vand(vand(r.live, id == r.id), cur))
		}
		vassert(ok, "returned-id-is-live-rule-with-current-body")
	}
	vreach("end")
}

// VH_C01_nested_optional: a when-pattern whose optional variable (??x) sits inside a nested
// map only; the event lacks that property. Whatever the matcher says about pattern and
// event, the state's rule lookup says the same (no matching rule skipped because of how
// rules are indexed).
func VH_C01_nested_optional(kind, shape int) {
	env := vhNewEnv(kind)
	s := vsymStrN("c", 3)
	vassume(!IsVariable(s))
	var when, event map[string]interface{}
	switch shape {
	case 0:
		when = map[string]interface{}{"a": map[string]interface{}{"b": "??x"}, "c": s}
		event = map[string]interface{}{"a": map[string]interface{}{}, "c": s}
	case 1:
		when = map[string]interface{}{"a": map[string]interface{}{"b": "??x", "d": "1"}, "c": s}
		event = map[string]interface{}{"a": map[string]interface{}{"d": "1"}, "c": s}
	case 2:
		when = map[string]interface{}{"a": map[string]interface{}{"e": map[string]interface{}{"b": "??x"}}, "c": s}
		event = map[string]interface{}{"a": map[string]interface{}{"e": map[string]interface{}{}}, "c": s}
	case 3: // inside a map that is an array element
		when = map[string]interface{}{"a": []interface{}{map[string]interface{}{"c": s, "b": "??x"}}}
		event = map[string]interface{}{"a": []interface{}{map[string]interface{}{"c": s}}}
	case 4:
		when = map[string]interface{}{"a": []interface{}{map[string]interface{}{"b": "??x"}}, "c": s}
		event = map[string]interface{}{"a": []interface{}{map[string]interface{}{}}, "c": s}
	}
	_, err := env.state.Add(env.ctx, "r", vhRuleFact(when))
	vassume(err == nil)
	bss, merr := Matches(env.ctx, when, event)
	vassume(merr == nil)
	rs, ferr := env.state.FindRules(env.ctx, Map(event))
	vassert(ferr == nil, "search-no-error")
	if len(bss) > 0 {
		_, found := rs["r"]
		vassert(found, "matching-pattern-found")
	}
	vreach("end")
}

// VH_C02_nested_optional (C02): the same for fact search: a pattern whose optional variable
// sits inside a nested map or inside a map that is an array element, against a stored fact
// lacking that property. The search finds the fact iff the matcher matches it, on both states.
func VH_C02_nested_optional(kind, shape int) {
	env := vhNewEnv(kind)
	s := vsymStrN("c", 3)
	vassume(!IsVariable(s))
	var pattern, fact map[string]interface{}
	switch shape {
	case 0:
		pattern = map[string]interface{}{"a": map[string]interface{}{"b": "??x"}, "c": s}
		fact = map[string]interface{}{"a": map[string]interface{}{}, "c": s}
	case 1:
		pattern = map[string]interface{}{"a": []interface{}{map[string]interface{}{"c": s, "b": "??x"}}}
		fact = map[string]interface{}{"a": []interface{}{map[string]interface{}{"c": s}}}
	case 2:
		pattern = map[string]interface{}{"a": []interface{}{map[string]interface{}{"b": "??x"}}, "c": s}
		fact = map[string]interface{}{"a": []interface{}{map[string]interface{}{}}, "c": s}
	}
	_, err := env.state.Add(env.ctx, "f", Map(fact))
	vassume(err == nil)
	bss, merr := Matches(env.ctx, pattern, fact)
	vassume(merr == nil)
	srs, serr := env.state.Search(env.ctx, Map(pattern))
	vassert(serr == nil && srs != nil, "search-no-error")
	if serr == nil && srs != nil {
		vassert((len(srs.Found) == 1) == (len(bss) > 0), "search-result-is-stored-matching-fact")
	}
	vreach("end")
}

// VH_C02_propvar (C02): a pattern with a property variable ({"?p": value}) against a fact
// whose key is arbitrary (the solver picks it: ordinary, ending in '!', "rule", ...): the
// search finds the fact iff the matcher matches it, on both states.
func VH_C02_propvar(kind int) {
	env := vhNewEnv(kind)
	k := vsymStrN("key", 5)
	vassume(k != "" && !IsVariable(k) && k != "id" && k != "expires" && k != "ttl" && k != "deleteWith" && k != "_id")
	v := vsymStrN("val", 2)
	vassume(v != "" && !IsVariable(v))
	fact := map[string]interface{}{k: v, "n": "1"}
	_, err := env.state.Add(env.ctx, "f", Map(fact))
	vassume(err == nil)
	pattern := map[string]interface{}{"?p": v}
	bss, merr := Matches(env.ctx, pattern, fact)
	vassume(merr == nil)
	srs, serr := env.state.Search(env.ctx, Map(pattern))
	vassert(serr == nil && srs != nil, "search-no-error")
	if serr == nil && srs != nil {
		vassert((len(srs.Found) == 1) == (len(bss) > 0), "search-result-is-stored-matching-fact")
	}
	vreach("end")
}
