package core

// C20 — configured limits are enforced and recover.
//
// Breaker unit: OutboundBreaker.{init,Do,Zap,slide,Status}; time is driven by the
// harness through the clock stub (time.Now returns the instant set by vsetNow).
//
//verif:bounds k <= 4 calls at arbitrary non-decreasing instants within 4 intervals of
// the start; limit in 1..2; interval 2000ns (resolution 100ns, divisible by the 20
// ticks). Other intervals, limits > 2 and longer histories are outside the claim.

import (
	"strconv"
	"time"
)

const (
	vhBase     = int64(1600000000000000000)
	vhInterval = int64(2000)
	vhTick      = vhInterval / 20
)

// VH_C20_breaker_safety: never more than `limit` admissions within any window of one
// interval, for every arrival pattern of k calls.
func VH_C20_breaker_safety(k int) {
	limit := int64(vsymInt("limit", 1, 2))
	b, err := NewOutboundBreaker(limit, time.Duration(vhInterval))
	vassume(err == nil)
	t := make([]int64, k)
	adm := make([]bool, k)
	prev := vhBase
	for i := 0; i < k; i++ {
		t[i] = vsymInt64("t"+strconv.Itoa(i), vhBase, vhBase+4*vhInterval)
		vassume(t[i] >= prev)
		prev = t[i]
		vsetNow(t[i])
		adm[i] = b.Zap()
	}
	for i := 0; i < k; i++ {
		if !adm[i] {
			continue
		}
		cnt := int64(0)
		for j := 0; j < i; j++ {
			if adm[j] {
				cnt += viteInt(t[i]-t[j] < vhInterval, 1, 0)
			}
		}
		vassert(cnt < limit, "at-most-limit-admissions-per-window")
	}
	vreach("end")
}

// vhBreakerRun drives k calls at arbitrary non-decreasing instants on a limit-1 breaker
// and, after each call, checks the recovery bound `slack` (in ticks beyond the interval).
// aligned: assume every gap between consecutive calls is a whole number of ticks.
func vhBreakerRun(k int, aligned bool, perPollSlack bool, label string) {
	b, err := NewOutboundBreaker(1, time.Duration(vhInterval))
	vassume(err == nil)
	t := make([]int64, k)
	adm := make([]bool, k)
	prev := vhBase
	for i := 0; i < k; i++ {
		t[i] = vsymInt64("t"+strconv.Itoa(i), vhBase, vhBase+4*vhInterval)
		vassume(t[i] >= prev)
		if aligned {
			vassume((t[i]-prev)%vhTick == 0)
		}
		prev = t[i]
		vsetNow(t[i])
		adm[i] = b.Zap()
		// every admission before this call is older than interval + slack ticks
		old := true
		for j := 0; j < i; j++ {
			if adm[j] {
				slack := vhTick
				if perPollSlack {
					// each intervening call may delay ageing by less than one tick
					slack = int64(i-j) * vhTick
				}
				old = vand(old, t[i]-t[j] >= vhInterval+slack)
			}
		}
		vassert(vimplies(old, adm[i]), label)
	}
	vreach("end")
}

// VH_C20_breaker_recovery_aligned: polling on tick boundaries — once every earlier
// admission is older than interval + one tick the call is admitted.
func VH_C20_breaker_recovery_aligned(k int) {
	vhBreakerRun(k, true, false, "admits-again-after-window")
}

// VH_C20_breaker_recovery_bound: arbitrary polling — the call is admitted once every
// earlier admission is older than interval + one tick per intervening call (this is the
// exact delay the implementation can accumulate; see the known finding).
func VH_C20_breaker_recovery_bound(k int) {
	vhBreakerRun(k, false, true, "admits-again-after-window-plus-one-tick-per-poll")
}

// VH_C20_breaker_recovery_witness: the property's own bound (interval + one tick) under
// arbitrary polling. Witness harness of known finding C20/poll-starvation.
func VH_C20_breaker_recovery_witness(k int) {
	vhBreakerRun(k, false, false, "admits-again-after-window")
}
