package core

// C20 — configured limits are enforced and recover.
//
// Breaker unit: OutboundBreaker.{init,Do,Zap,slide,Status}; time is driven by the
// harness through the clock stub (time.Now returns the instant set by vsetNow).
//
//verif:bounds k <= 4 calls at arbitrary non-decreasing instants within 4 intervals of
// the start; limit in 1..2; interval 2000ns (resolution 100ns, divisible by the 20
// ticks). Other intervals, limits > 2 and longer histories are outside the claim.

import (
	"strconv"
	"sync"
	"time"
)

const (
	vhBase     = int64(1600000000000000000)
	vhInterval = int64(2000)
	vhTick     = vhInterval / 20
)

// VH_C20_breaker_safety: never more than `limit` admissions within any window of one
// interval, for every arrival pattern of k calls.
func VH_C20_breaker_safety(k int) {
	limit := int64(vsymInt("limit", 1, 2))
	b, err := NewOutboundBreaker(limit, time.Duration(vhInterval))
	vassume(err == nil)
	t := make([]int64, k)
	adm := make([]bool, k)
	prev := vhBase
	for i := 0; i < k; i++ {
		t[i] = vsymInt64("t"+strconv.Itoa(i), vhBase, vhBase+4*vhInterval)
		vassume(t[i] >= prev)
		prev = t[i]
		vsetNow(t[i])
		adm[i] = b.Zap()
	}
	for i := 0; i < k; i++ {
		if !adm[i] {
			continue
		}
		cnt := int64(0)
		for j := 0; j < i; j++ {
			if adm[j] {
				cnt += viteInt(t[i]-t[j] < vhInterval, 1, 0)
			}
		}
		vassert(cnt < limit, "at-most-limit-admissions-per-window")
	}
	vreach("end")
}

// vhBreakerRun drives k calls at arbitrary non-decreasing instants on a limit-1 breaker
// and, after each call, checks the recovery bound `slack` (in ticks beyond the interval).
// aligned: assume every gap between consecutive calls is a whole number of ticks.
func vhBreakerRun(k int, aligned bool, perPollSlack bool, label string) {
	b, err := NewOutboundBreaker(1, time.Duration(vhInterval))
	vassume(err == nil)
	t := make([]int64, k)
	adm := make([]bool, k)
	prev := vhBase
	for i := 0; i < k; i++ {
		t[i] = vsymInt64("t"+strconv.Itoa(i), vhBase, vhBase+4*vhInterval)
		vassume(t[i] >= prev)
		if aligned {
			vassume((t[i]-prev)%vhTick == 0)
		}
		prev = t[i]
		vsetNow(t[i])
		adm[i] = b.Zap()
		// every admission before this call is older than interval + slack ticks
		old := true
		for j := 0; j < i; j++ {
			if adm[j] {
				slack := vhTick
				if perPollSlack {
					// each intervening call may delay ageing by less than one tick
					slack = int64(i-j) * vhTick
				}
				old = vand(old, t[i]-t[j] >= vhInterval+slack)
			}
		}
		vassert(vimplies(old, adm[i]), label)
	}
	vreach("end")
}

// VH_C20_breaker_recovery_aligned: polling on tick boundaries — once every earlier
// admission is older than interval + one tick the call is admitted.
func VH_C20_breaker_recovery_aligned(k int) {
	vhBreakerRun(k, true, false, "admits-again-after-window")
}

// VH_C20_breaker_recovery_bound: arbitrary polling — the call is admitted once every
// earlier admission is older than interval + one tick per intervening call (this is the
// exact delay the implementation can accumulate; see the known finding).
func VH_C20_breaker_recovery_bound(k int) {
	vhBreakerRun(k, false, true, "admits-again-after-window-plus-one-tick-per-poll")
}

// VH_C20_breaker_recovery_witness: the property's own bound (interval + one tick) under
// arbitrary polling. Witness harness of known finding C20/poll-starvation.
func VH_C20_breaker_recovery_witness(k int) {
	vhBreakerRun(k, false, false, "admits-again-after-window")
}

// ---- capacity -------------------------------------------------------------------------
//
// Unit: Location.{AtCapacity,AddFact,AddRule,RemFact}, State.Count, on the real states.

// VH_C20_capacity: MaxFacts symbolic small; a history of adds/removes around the
// boundary; the location never holds more than MaxFacts items after a public add, and an
// add refused for capacity leaves memory and storage as they were.
func VH_C20_capacity(kind, op1, op2, op3 int) {
	env := vhNewEnv(kind)
	c := DefaultControl()
	max := vsymInt("maxFacts", 0, 3)
	c.MaxFacts = max
	env.loc.SetControl(c)
	ids := []string{"i0", "i1", "i2"}
	for step, op := range []int{op1, op2, op3} {
		id := ids[vchoose(3)]
		before := env.state.Count(env.ctx)
		_, had := env.store.State(env.ctx)[env.name][id]
		switch op {
		case 0: // add fact
			_, err := env.loc.AddFact(env.ctx, id, Map{"a": "v" + string(rune('0'+step))})
			if err != nil {
				// refused: nothing changed
				vassert(env.state.Count(env.ctx) == before, "refused-add-leaves-count")
				_, has := env.store.State(env.ctx)[env.name][id]
				vassert(has == had, "refused-add-leaves-storage")
				vassert(before >= max, "add-refused-only-at-capacity")
			}
		case 1: // add rule
			_, err := env.loc.AddRule(env.ctx, id, vhRule(map[string]interface{}{"a": "?x"}, "act"))
			if err != nil {
				vassert(env.state.Count(env.ctx) == before, "refused-add-leaves-count")
				_, has := env.store.State(env.ctx)[env.name][id]
				vassert(has == had, "refused-add-leaves-storage")
				vassert(before >= max, "add-refused-only-at-capacity")
			}
		case 2: // remove
			env.loc.RemFact(env.ctx, id)
		case 3:
		case 4: // add a fact that is to be deleted with another id (which may not exist)
			_, err := env.loc.AddFact(env.ctx, id, Map{"a": "d", "deleteWith": []interface{}{ids[vchoose(3)]}})
			if err != nil {
				vassert(env.state.Count(env.ctx) == before, "refused-add-leaves-count")
				vassert(before >= max, "add-refused-only-at-capacity")
			}
		}
		if op == 0 || op == 1 || op == 4 {
			n := env.state.Count(env.ctx)
			// never above the maximum after a public add — except that it was already
			// above (the maximum was lowered), which cannot happen here
			vassert(n <= max || n <= before, "count-within-maximum")
		}
	}
	vreach("end")
}

// ---- throttle [concurrency mode] ---------------------------------------------------------
//
// Unit: Throttle.{Submit,Pending} over a harness Breaker whose admissions are explored
// decisions; n concurrent submitters.

type vhScriptBreaker struct {
	mu sync.Mutex
}

func (b *vhScriptBreaker) Status() BreakerStatus { return BreakerStatus{Closed: true} }
func (b *vhScriptBreaker) Disable(bool)          {}
func (b *vhScriptBreaker) Do(f func() error) (bool, error) {
	b.mu.Lock()
	admit := vchoose(2) == 1
	b.mu.Unlock()
	if !admit {
		return false, nil
	}
	if f != nil {
		return true, f()
	}
	return true, nil
}

// VH_C20_throttle: n submitters, pending limit lim, attempts 2.
func VH_C20_throttle(n, lim int) { vhC20Throttle(n, lim, false) }

// VH_C20_throttle_err: the submitted functions fail: still run at most once each, and the
// caller gets the function's own error.
func VH_C20_throttle_err(n, lim int) { vhC20Throttle(n, lim, true) }

// VH_C20_throttle_disabled: a disabled throttle (limits switched off) still runs each
// function at most once and leaves nothing pending.
func VH_C20_throttle_disabled(n, lim int) { vhC20ThrottleD(n, lim, false, true) }

func vhC20Throttle(n, lim int, failing bool) { vhC20ThrottleD(n, lim, failing, false) }

// VH_C20_throttle_toggle: the throttle is switched off (from=0) or back on (from=1) by
// another goroutine while submissions are under way: whatever the moment, every function
// runs at most once and the pending count is back at zero when all have returned.
func VH_C20_throttle_toggle(n, lim, from int) {
	vhToggle = true
	vhC20ThrottleD(n, lim, false, from == 1)
}

var vhToggle bool

func vhC20ThrottleD(n, lim int, failing, disabled bool) {
	thunkErr := NewSyntaxError("thunk failed")
	vsetNow(vhBase)
	t, err := NewThrottle(2, lim, time.Duration(10), &vhScriptBreaker{})
	vassume(err == nil)
	if disabled {
		t.Disable(true)
	}
	runs := make([]int, n)
	results := make([]error, n)
	var mu sync.Mutex
	maxPending := 0
	var wg sync.WaitGroup
	wg.Add(n)
	for i := 0; i < n; i++ {
		go func(i int) {
			results[i] = t.Submit(func() error {
				p, _ := t.Pending()
				mu.Lock()
				runs[i]++
				if p > maxPending {
					maxPending = p
				}
				mu.Unlock()
				if failing {
					return thunkErr
				}
				return nil
			})
			wg.Done()
		}(i)
	}
	if vhToggle {
		wg.Add(1)
		go func() {
			t.Disable(!disabled)
			wg.Done()
		}()
	}
	wg.Wait()
	for i := 0; i < n; i++ {
		vassert(runs[i] <= 1, "submitted-function-runs-at-most-once")
		if failing {
			if results[i] == error(thunkErr) {
				vassert(runs[i] == 1, "own-error-means-it-ran-once")
			} else {
				vassert(results[i] != nil && runs[i] == 0, "failure-means-it-did-not-run")
			}
		} else if results[i] == nil {
			vassert(runs[i] == 1, "success-means-it-ran")
		} else {
			vassert(runs[i] == 0, "failure-means-it-did-not-run")
		}
	}
	if !disabled && !vhToggle {
		vassert(maxPending <= lim+1, "pending-within-limit-plus-one")
	}
	p, _ := t.Pending()
	vassert(p == 0, "nothing-pending-at-the-end")
	vreach("end")
}

// VH_C20_breaker_conc: n goroutines call the breaker at the same instant; at most `limit`
// are admitted whatever the schedule, and no race is reported.
func VH_C20_breaker_conc(n, limit int) {
	b, err := NewOutboundBreaker(int64(limit), time.Duration(vhInterval))
	vassume(err == nil)
	vsetNow(vhBase)
	adm := make([]bool, n)
	var wg sync.WaitGroup
	wg.Add(n)
	for i := 0; i < n; i++ {
		go func(i int) {
			adm[i] = b.Zap()
			wg.Done()
		}(i)
	}
	wg.Wait()
	c := 0
	for _, a := range adm {
		if a {
			c++
		}
	}
	vassert(c <= limit, "at-most-limit-admissions-under-concurrency")
	vassert(c == limit || c == n, "admits-up-to-the-limit")
	vreach("end")
}
