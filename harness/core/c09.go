package core

// C09 — locations are isolated except through declared parents.
//
// Unit A: Location.{DoAncestors,getParents,SetParents,searchFactsAncestors,
// searchRulesAncestors,SearchFacts,SearchRules,ProcessEvent} with the real
// SimpleLocationProvider over <= 3 locations (l0,l1,l2) whose parent lists hold symbolic
// names, so the solver ranges over chains, diamonds, self loops, indirect loops and
// unknown parents. Unit B (frame): operations on one location leave another unchanged,
// both sharing one MemStorage.
//
//verif:bounds 3 locations, each with 0..2 parents (names symbolic, len<=2); one fact and
// one rule per location; linear and indexed state.

var vhLocNames = []string{"l0", "l1", "l2", "l3"}

type vhForest struct {
	ctx   *Context
	locs  []*Location
	prov  *SimpleLocationProvider
	store *MemStorage
	in    *vhInterp
}

func vhNewForest(kind int) *vhForest {
	vsetNow(vhNow)
	ctx := NewContext("c09")
	store, err := NewMemStorage(ctx)
	vassume(err == nil)
	f := &vhForest{ctx: ctx, store: store, in: &vhInterp{}}
	reg := map[string]*Location{}
	f.prov = NewSimpleLocationProvider(reg)
	for _, name := range vhLocNames {
		st := vhNewState(ctx, kind, name, store)
		loc, err := NewLocation(ctx, name, st, nil)
		vassume(err == nil)
		loc.Provider = f.prov
		c := DefaultControl()
		c.ActionInterpreters = map[string]ActionInterpreter{"vh": f.in}
		loc.SetControl(c)
		reg[name] = loc
		f.locs = append(f.locs, loc)
	}
	return f
}

// vhParentName: a symbolic parent name (may be any location's name, the location itself,
// or a name nobody has).
func vhParentName(tag string) string { return vsymStrN(tag, 2) }

// vhSetParents gives location i a parent list of n symbolic names; returns the names.
func (f *vhForest) setParents(i, n int) []string {
	var ps []string
	for k := 0; k < n; k++ {
		ps = append(ps, vhParentName("par"+string(rune('0'+i))+string(rune('0'+k))))
	}
	if n == 2 {
		vassume(ps[0] != ps[1])
	}
	_, err := f.locs[i].SetParents(f.ctx, ps)
	vassume(err == nil)
	return ps
}

func vhIndexOf(name string) (idx int, known bool) {
	// term-free classification is impossible for symbolic names: fork explicitly
	for i, n := range vhLocNames {
		if name == n {
			return i, true
		}
	}
	return -1, false
}

// VH_C09_inherit: facts seen through inheritance = union over the transitive parents.
func VH_C09_inherit(kind, n0, n1, n2 int) { vhC09Inherit(kind, n0, n1, n2, 0) }

// VH_C09_inherit4: the fourth location may have parents too.
func VH_C09_inherit4(kind, n0, n1, n2, n3 int) { vhC09Inherit(kind, n0, n1, n2, n3) }

func vhC09Inherit(kind, n0, n1, n2, n3 int) {
	f := vhNewForest(kind)
	for i, loc := range f.locs {
		_, err := loc.AddFact(f.ctx, "f"+vhLocNames[i], Map{"a": "v" + vhLocNames[i]})
		vassume(err == nil)
	}
	counts := []int{n0, n1, n2, n3}
	parents := make([][]int, 4)
	bad := false // some parent name is unknown
	for i := range f.locs {
		for _, p := range f.setParents(i, counts[i]) {
			j, known := vhIndexOf(p)
			if !known {
				bad = true
			} else {
				parents[i] = append(parents[i], j)
			}
		}
	}
	// reference: ancestors of l0 by DFS; loop if a node is reached again on the path
	seen := map[int]bool{}
	loop := false
	var visit func(i int, path []int)
	visit = func(i int, path []int) {
		for _, p := range path {
			if p == i {
				loop = true
				return
			}
		}
		seen[i] = true
		for _, p := range parents[i] {
			visit(p, append(path, i))
		}
	}
	visit(0, nil)
	// unknown parents only matter if reachable from l0: recompute reachability of "bad"
	badReach := false
	for i := range f.locs {
		if !seen[i] {
			continue
		}
		for k := 0; k < counts[i]; k++ {
			name := vhParentName("par" + string(rune('0'+i)) + string(rune('0'+k)))
			if _, known := vhIndexOf(name); !known {
				badReach = true
			}
		}
	}
	_ = bad

	srs, err := f.locs[0].SearchFacts(f.ctx, Map{"a": "?x"}, true)
	if loop {
		vassert(err != nil, "ancestor-loop-reported")
		vreach("end")
		return
	}
	if badReach {
		vassert(err != nil, "unknown-parent-reported")
		vreach("end")
		return
	}
	vassert(err == nil, "inherited-search-no-error")
	if err == nil {
		vassert(len(srs.Found) == len(seen), "inherited-search-is-union-without-duplicates")
		for i := range f.locs {
			in := false
			for _, sr := range srs.Found {
				if sr.Id == "f"+vhLocNames[i] {
					in = true
				}
			}
			vassert(in == seen[i], "fact-visible-iff-transitive-parent")
		}
	}
	// an event at l0 dispatches rules of exactly the same set
	vreach("end")
}

// VH_C09_frame: an operation on one location never changes what another returns.
func VH_C09_frame(kind, op int) {
	f := vhNewForest(kind)
	a, b := f.locs[0], f.locs[1]
	idb := vhIdD(0)
	_, err := b.AddFact(f.ctx, idb, Map{"a": "vb"})
	vassume(err == nil)
	before, errb := b.GetFact(f.ctx, idb)
	vassume(errb == nil)
	snap := vsnapshot(map[string]interface{}(before))
	// any operation on a, using the same id
	switch op {
	case 0:
		_, err = a.AddFact(f.ctx, idb, Map{"a": "va"})
	case 1:
		_, err = a.RemFact(f.ctx, idb)
	case 2:
		err = a.Clear(f.ctx)
	case 3:
		_, err = a.AddRule(f.ctx, idb, vhRule(map[string]interface{}{"a": "?x"}, "act"))
	case 4:
		_, err = a.SetParents(f.ctx, []string{"l2"})
	case 5:
		err = a.Delete(f.ctx)
	}
	after, erra := b.GetFact(f.ctx, idb)
	vassert(erra == nil, "other-location-still-has-fact")
	if erra == nil {
		vassert(vdeepEq(map[string]interface{}(after), snap), "other-location-unchanged")
	}
	// also after a reload of b from the shared storage
	st := vhNewState(f.ctx, kind, "l1", f.store)
	b2, errl := NewLocation(NewContext("reload"), "l1", st, nil)
	vassume(errl == nil)
	again, errg := b2.GetFact(f.ctx, idb)
	vassert(errg == nil, "other-location-storage-unchanged")
	if errg == nil {
		vassert(vdeepEq(vhStripId(again), vhStripId(Map(snap.(map[string]interface{})))), "other-location-storage-unchanged")
	}
	// an event at the parent is not delivered to children: a is child of b?
	vreach("end")
}

// vhAncestors: reference closure of location `start` over the parent index lists.
func vhAncestors(parents [][]int, start int) (map[int]bool, bool) {
	seen := map[int]bool{}
	loop := false
	var visit func(i int, path []int)
	visit = func(i int, path []int) {
		for _, p := range path {
			if p == i {
				loop = true
				return
			}
		}
		seen[i] = true
		for _, p := range parents[i] {
			visit(p, append(path, i))
		}
	}
	visit(start, nil)
	return seen, loop
}

// VH_C09_dispatch: an event sent to location `at` runs exactly the rules of `at` and of
// its transitive parents (never those of its children), and a parent set changed just
// before the event is the one that counts.
func VH_C09_dispatch(kind, n0, n1, at int) { vhC09Dispatch(kind, n0, n1, at, false) }

// VH_C09_dispatch_cond: the same with a pattern condition on every rule (an inherited
// search runs between rule selection and the action) satisfied by one fact of the
// event's location.
func VH_C09_dispatch_cond(kind, n0, n1, at int) { vhC09Dispatch(kind, n0, n1, at, true) }

func vhC09Dispatch(kind, n0, n1, at int, withCond bool) {
	f := vhNewForest(kind)
	for i, loc := range f.locs {
		r := vhRule(map[string]interface{}{"a": "?x"}, "act"+vhLocNames[i])
		if withCond {
			r["condition"] = map[string]interface{}{"pattern": map[string]interface{}{"c": "?y"}}
		}
		_, err := loc.AddRule(f.ctx, "r"+vhLocNames[i], r)
		vassume(err == nil)
	}
	if withCond {
		_, err := f.locs[at].AddFact(f.ctx, "cf", Map{"c": "v"})
		vassume(err == nil)
	}
	// an earlier parent set that is then replaced
	f.setParentsNamed(0, []string{"l2"})
	counts := []int{n0, n1, 0, 0}
	parents := make([][]int, 4)
	for i := range f.locs {
		names := f.setParents(i, counts[i])
		for _, p := range names {
			j, known := vhIndexOf(p)
			vassume(known)
			parents[i] = append(parents[i], j)
		}
	}
	seen, loop := vhAncestors(parents, at)
	_, cond := f.locs[at].ProcessEvent(f.ctx, Map{"a": "b"})
	if loop {
		vassert(cond != nil, "ancestor-loop-reported")
		vreach("end")
		return
	}
	vassert(cond == nil, "event-complete")
	for i := range f.locs {
		n := 0
		for _, e := range f.in.execs {
			if e.code == "act"+vhLocNames[i] {
				n++
			}
		}
		want := 0
		if seen[i] {
			want = 1
		}
		vassert(n == want, "rule-runs-iff-own-or-inherited")
	}
	// an inherited rule runs in the location the event was sent to, not in the location
	// that stores the rule: that is the location its action sees and changes
	for _, e := range f.in.execs {
		vassert(e.ctxLoc == vhLocNames[at], "action-runs-in-the-events-location")
		vassert(e.argLoc == vhLocNames[at], "action-runs-in-the-events-location")
	}
	vreach("end")
}

func (f *vhForest) setParentsNamed(i int, names []string) {
	_, err := f.locs[i].SetParents(f.ctx, names)
	vassume(err == nil)
}

// VH_C09_reparent: a location that has already used its parent list (an inherited search)
// gets a different parent set by one of the routes that change the stored "parents"
// property — SetParents, Clear, the property API, removing the property fact; the next
// inherited search follows the new set at once. route: 0 SetParents to another parent,
// 1 Clear (no parents left), 2 SetProp to another parent, 3 RemProp (no parents left).
func VH_C09_reparent(kind, route int) {
	f := vhNewForest(kind)
	for i, loc := range f.locs[:3] {
		_, err := loc.AddFact(f.ctx, "f", Map{"who": vhLocNames[i]})
		vassume(err == nil)
	}
	f.setParentsNamed(0, []string{"l1"})
	sees := func() map[string]bool {
		srs, err := f.locs[0].SearchFacts(f.ctx, Map{"who": "?w"}, true)
		vassert(err == nil, "inherited-search-no-error")
		got := map[string]bool{}
		if srs != nil {
			for _, sr := range srs.Found {
				for _, bs := range sr.Bindingss {
					if w, ok := bs["?w"].(string); ok {
						got[w] = true
					}
				}
			}
		}
		return got
	}
	before := sees()
	vassert(before["l0"] && before["l1"] && !before["l2"], "inherited-search-is-union-over-transitive-parents")
	wantOwn, wantParent := true, ""
	switch route {
	case 0:
		_, err := f.locs[0].SetParents(f.ctx, []string{"l2"})
		vassume(err == nil)
		wantParent = "l2"
	case 1:
		vassume(f.locs[0].Clear(f.ctx) == nil)
		wantOwn = false
	case 2:
		vassume(f.locs[0].SetProp(f.ctx, "", "parents", []string{"l2"}) == nil)
		wantParent = "l2"
	case 3:
		vassume(f.locs[0].RemProp(f.ctx, "", "parents") == nil)
	}
	after := sees()
	vassert(after["l0"] == wantOwn, "own-facts-as-left-by-the-operation")
	for _, n := range []string{"l1", "l2"} {
		vassert(after[n] == (n == wantParent), "parent-change-takes-effect-immediately")
	}
	vreach("end")
}

// VH_C09_list_loop: a parent chain that loops back is an error for every operation that
// walks it — also for the inherited rule listing (which used to answer with a partial list).
func VH_C09_list_loop(kind int) {
	f := vhNewForest(kind)
	f.setParentsNamed(0, []string{"l1"})
	f.setParentsNamed(1, []string{"l0"})
	_, err := f.locs[0].ListRules(f.ctx, true)
	vassert(err != nil, "ancestor-loop-reported")
	_, err = f.locs[0].ListRules(f.ctx, false)
	vassert(err == nil, "own-rules-listed-without-walking")
	vreach("end")
}
