package core

// C10 — rule lifecycle: only live, enabled rules fire.
//
// Unit: Location.{AddRule,RemRule,EnableRule,RuleEnabled,Enabled,ProcessEvent,WorkWalk},
// FindRules.Do, searchRulesAncestors/searchRules, State.{Add,Rem,FindCachedRules},
// RuleFromMap (JSON model), SetProp/RemProp/GetProp, NewLocation/init/Load.
// History <= 3 of {add rule, remove, disable, enable, reload, location off, location on}
// over 2 distinct symbolic ids, then one event; the harness ActionInterpreter records
// which rules fired.
//
//verif:bounds history <= 3; 2 ids; when-patterns {K:L} with K in {a,b}; event {K:S};
// both state implementations; no parents (inherited rules: see VH_C10_parent).

type vhLife struct {
	id       string
	when     map[string]interface{}
	live     bool // a rule is stored under id
	disabled bool // the !id.disabled flag is set
}

func vhLifeOf(ref []*vhLife, i int) *vhLife { return ref[i] }

// vhC10Op applies one lifecycle operation. Returns the (possibly reloaded) env.
func vhC10Op(env *vhEnv, in *vhInterp, ref []*vhLife, locOn *bool, step, op int) *vhEnv {
	pre := "s" + string(rune('0'+step))
	expectDisabledErr := func(err error) {
		vassert(err != nil, "disabled-location-reports-error")
	}
	switch op {
	case 0: // add (or overwrite) a rule
		i := vchoose(2)
		r := ref[i]
		when := map[string]interface{}(vhPatternC(pre, 0))
		_, err := env.loc.AddRule(env.ctx, r.id, vhRule(when, "act"))
		if !*locOn {
			expectDisabledErr(err)
			return env
		}
		vassert(err == nil, "addrule-succeeds")
		r.when, r.live = when, true
	case 1: // remove
		r := ref[vchoose(2)]
		_, err := env.loc.RemRule(env.ctx, r.id)
		if !*locOn {
			expectDisabledErr(err)
			return env
		}
		vassert(err == nil, "remrule-succeeds")
		r.live, r.disabled = false, false
	case 2, 3: // disable / enable
		r := ref[vchoose(2)]
		err := env.loc.EnableRule(env.ctx, r.id, op == 3)
		if !*locOn {
			expectDisabledErr(err)
			return env
		}
		vassert(err == nil, "enablerule-succeeds")
		r.disabled = op == 2
	case 4: // reload the location from storage alone
		env = vhOpenEnv(env.kind, NewContext("reload"), env.store, env.name)
		vhInstallInterp(env, in)
	case 5: // switch the location off
		vassert(env.loc.SetProp(env.ctx, "", "enabled", "false") == nil, "setprop-succeeds")
		*locOn = false
	case 6: // switch the location on again
		vassert(env.loc.SetProp(env.ctx, "", "enabled", "true") == nil, "setprop-succeeds")
		*locOn = true
	case 7:
	default:
		vassume(false)
	}
	return env
}

func VH_C10_hist(kind, op1, op2, op3 int) { vhC10Hist(kind, op1, op2, op3, 7) }

// VH_C10_hist4: four-operation histories (e.g. add, disable, remove, reload: the flag must
// be gone from storage too).
func VH_C10_hist4(kind, op1, op2, op3, op4 int) { vhC10Hist(kind, op1, op2, op3, op4) }

func vhC10Hist(kind, op1, op2, op3, op4 int) {
	env, in := vhDispatchEnv(kind)
	ref := []*vhLife{{id: vhIdD(0)}, {id: vhIdD(1)}}
	locOn := true
	env = vhC10Op(env, in, ref, &locOn, 1, op1)
	env = vhC10Op(env, in, ref, &locOn, 2, op2)
	env = vhC10Op(env, in, ref, &locOn, 3, op3)
	env = vhC10Op(env, in, ref, &locOn, 4, op4)
	if locOn {
		// the disabled flag is exactly what the history left (it disappears with the
		// rule and survives a reload)
		for _, r := range ref {
			enabled, _ := env.loc.RuleEnabled(env.ctx, r.id)
			vassert(enabled == !r.disabled, "disabled-flag-as-left-by-history")
		}
	}

	ev := vhFactC("e", 0)
	for _, v := range ev {
		if s, ok := v.(string); ok {
			vassume(!IsVariable(s))
		}
	}
	in.execs = nil
	_, cond := env.loc.ProcessEvent(env.ctx, ev)
	if !locOn {
		vassert(cond != nil, "disabled-location-reports-error")
		vassert(len(in.execs) == 0, "disabled-location-fires-nothing")
		vreach("end")
		return
	}
	vassert(cond == nil, "event-complete")
	for _, r := range ref {
		want := int64(0)
		if r.live && !r.disabled {
			bss, err := Matches(env.ctx, r.when, map[string]interface{}(ev))
			vassume(err == nil)
			want = int64(len(bss))
		}
		vassert(vhFired(in, r.id, "act") == want, "fires-iff-live-enabled-matching")
	}
	vassert(int64(len(in.execs)) == vhFired(in, ref[0].id, "act")+vhFired(in, ref[1].id, "act"), "nothing-else-fires")
	vreach("end")
}

// VH_C10_trigger: a rule addressed by id through a "trigger!" event (how the cron fires
// scheduled rules) obeys the disabled flag like any other rule: disabled it does not run,
// enabled again it does. sched 1: the rule is a scheduled rule; 0: a when-rule whose pattern
// also matches the trigger event (a when-rule addressed by id is still matched against the
// event).
func VH_C10_trigger(kind, sched int) {
	env, in := vhDispatchEnv(kind)
	var r Map
	if sched == 1 {
		r = Map{"schedule": "+1h", "action": vhAction("act")}
	} else {
		r = vhRule(map[string]interface{}{"trigger!": "?x"}, "act")
	}
	_, err := env.loc.AddRule(env.ctx, "r1", r)
	vassume(err == nil)
	trigger := Map{"trigger!": "r1"}
	_, cond := env.loc.ProcessEvent(env.ctx, trigger)
	vassert(cond == nil, "event-complete")
	vassert(len(in.execs) == 1, "fires-iff-live-enabled-matching")
	if sched == 1 {
		// a one-shot scheduled rule is deleted after its run: add it again
		_, err = env.loc.AddRule(env.ctx, "r1", r)
		vassume(err == nil)
	}
	vassert(env.loc.EnableRule(env.ctx, "r1", false) == nil, "enablerule-succeeds")
	_, cond = env.loc.ProcessEvent(env.ctx, trigger)
	vassert(len(in.execs) == 1, "disabled-rule-does-not-fire-when-triggered-by-id")
	vassert(env.loc.EnableRule(env.ctx, "r1", true) == nil, "enablerule-succeeds")
	_, cond = env.loc.ProcessEvent(env.ctx, trigger)
	vassert(cond == nil, "event-complete")
	vassert(len(in.execs) == 2, "fires-iff-live-enabled-matching")
	vreach("end")
}

// VH_C10_disabled_location: in a disabled location no rule fires, however the event
// addresses it: by matching (0), by id through trigger! (1), or as an embedded rule
// through evaluate! (2).
func VH_C10_disabled_location(kind, how int) {
	env, in := vhDispatchEnv(kind)
	_, err := env.loc.AddRule(env.ctx, "r1", vhRule(map[string]interface{}{"a": "?x"}, "act"))
	vassume(err == nil)
	_, err = env.loc.AddRule(env.ctx, "r2", Map{"schedule": "+1h", "action": vhAction("act2")})
	vassume(err == nil)
	_, err = env.loc.AddFact(env.ctx, "", Map{"!enabled": "no"})
	vassume(err == nil)
	var ev Map
	switch how {
	case 0:
		ev = Map{"a": "1"}
	case 1:
		ev = Map{"trigger!": "r2"}
	case 2:
		ev = Map{"a": "1", "evaluate!": map[string]interface{}(vhRule(map[string]interface{}{"a": "?x"}, "act3"))}
	}
	_, cond := env.loc.ProcessEvent(env.ctx, ev)
	vassert(len(in.execs) == 0, "disabled-location-fires-nothing")
	vassert(cond != nil, "disabled-location-reports-error")
	vreach("end")
}

// VH_C10_replace_sched: re-adding under the same id replaces the old rule entirely, also
// when an event rule is replaced by a scheduled rule (which has no when): events matching
// the former when fire nothing of it, and after its removal the other rules still fire.
func VH_C10_replace_sched(kind int) {
	env, in := vhDispatchEnv(kind)
	_, err := env.loc.AddRule(env.ctx, "r1", vhRule(map[string]interface{}{"a": "?x"}, "old"))
	vassume(err == nil)
	_, err = env.loc.AddRule(env.ctx, "r2", vhRule(map[string]interface{}{"a": "?y"}, "other"))
	vassume(err == nil)
	_, err = env.loc.AddRule(env.ctx, "r1", Map{"schedule": "+1h", "action": vhAction("new")})
	vassert(err == nil, "addrule-succeeds")
	_, cond := env.loc.ProcessEvent(env.ctx, Map{"a": "1"})
	vassert(cond == nil, "event-complete")
	vassert(vhFired(in, "r1", "old") == 0 && vhFired(in, "r1", "new") == 0, "nothing-else-fires")
	vassert(vhFired(in, "r2", "other") == 1, "fires-iff-live-enabled-matching")
	_, err = env.loc.RemRule(env.ctx, "r1")
	vassert(err == nil, "remrule-succeeds")
	_, cond = env.loc.ProcessEvent(env.ctx, Map{"a": "2"})
	vassert(cond == nil, "event-complete")
	vassert(vhFired(in, "r2", "other") == 2, "fires-iff-live-enabled-matching")
	vreach("end")
}

// VH_C10_embedded_oneshot: an event may carry a rule to evaluate (evaluate!). Such a rule is
// not stored, so nothing is stored under its working name either: evaluating an embedded
// rule — even one with a one-shot schedule, which for stored rules means "delete after the
// run" — leaves the location's own rules and facts alone.
func VH_C10_embedded_oneshot(kind, sched int) {
	env, in := vhDispatchEnv(kind)
	_, err := env.loc.AddRule(env.ctx, "embedded", vhRule(map[string]interface{}{"never": "?x"}, "bystander"))
	vassume(err == nil)
	r := map[string]interface{}{"action": vhAction("act")}
	switch sched {
	case 0:
		r["when"] = map[string]interface{}{"pattern": map[string]interface{}{"a": "?x"}}
	case 1:
		r["schedule"] = "+1h"
	case 2:
		r["schedule"] = "!2030-01-01T00:00:00Z"
	}
	env.loc.ProcessEvent(env.ctx, Map{"a": "1", "evaluate!": r})
	vassert(len(in.execs) == 1, "embedded-rule-runs-once")
	_, gerr := env.loc.GetRule(env.ctx, "embedded")
	vassert(gerr == nil, "other-rules-untouched")
	vreach("end")
}
