package core

// C05 — differential obligation for rulio's own part of the matcher: DefaultMatcher is
// the dependency's matcher (github.com/Comcast/sheens/match, configured in match.go)
// behind a deep cast. For generic JSON input the cast is the identity, so whatever the
// leaves spell — constants, "?x", optional "??x", inequality variables — rulio's Match
// must return what the inner matcher returns on copies of the same input. Nothing is
// assumed about how a leaf looks: the solver picks the spellings from the path
// conditions of the matcher itself.

import "github.com/Comcast/sheens/match"

func vhWrapPattern(shape int) map[string]interface{} {
	s1, s2 := vsymStrN("p.s1", 3), vsymStrN("p.s2", 3)
	switch shape {
	case 0:
		return map[string]interface{}{"a": s1}
	case 1:
		return map[string]interface{}{"a": s1, "b": s2}
	case 2:
		return map[string]interface{}{"a": map[string]interface{}{"c": s1}, "b": s2}
	case 3:
		return map[string]interface{}{"a": []interface{}{s1}, "b": s2}
	case 4:
		return map[string]interface{}{"a": s1, vsymStrN("p.k", 3): s2}
	}
	vassume(false)
	return nil
}

func vhWrapData(shape int) map[string]interface{} {
	t1, t2 := vsymStrN("d.t1", 2), vsymStrN("d.t2", 2)
	// stored strings that look like variables send the dependency's matcher into unbounded
	// recursion: that is the open finding kept alive by VH_C13_selfvar, assumed away here
	vassume(!vhasPrefix(t1, "?") && !vhasPrefix(t2, "?"))
	switch shape {
	case 0:
		return map[string]interface{}{"a": t1}
	case 1:
		return map[string]interface{}{"a": t1, "b": t2}
	case 2:
		return map[string]interface{}{"a": map[string]interface{}{"c": t1}}
	case 3:
		return map[string]interface{}{"a": []interface{}{t1, t2}}
	case 4:
		return map[string]interface{}{"a": map[string]interface{}{"c": t1}, "b": t2}
	case 5:
		return map[string]interface{}{"a": []interface{}{t1}, "b": t2}
	}
	vassume(false)
	return nil
}

// vhSameBindings: two result lists hold the same binding sets (as sets; the order may
// depend on map iteration).
func vhSameBindings(got []Bindings, want []match.Bindings) bool {
	ok := len(got) == len(want)
	for _, g := range got {
		in := false
		for _, w := range want {
			in = vor(in, vdeepEq(map[string]interface{}(g), map[string]interface{}(w)))
		}
		ok = vand(ok, in)
	}
	for _, w := range want {
		in := false
		for _, g := range got {
			in = vor(in, vdeepEq(map[string]interface{}(g), map[string]interface{}(w)))
		}
		ok = vand(ok, in)
	}
	return ok
}

func VH_C05_wrapper(pshape, dshape int) {
	p := vhWrapPattern(pshape)
	d := vhWrapData(dshape)
	inner := &match.Matcher{
		AllowPropertyVariables:       true,
		CheckForBadPropertyVariables: CheckForBadPropertyVariables,
		Inequalities:                 true,
	}
	want, werr := inner.Match(vsnapshot(p), vsnapshot(d), match.Bindings{})
	got, gerr := Matches(nil, p, d)
	vassert((werr == nil) == (gerr == nil), "wrapper-agrees-with-the-matcher")
	if werr == nil && gerr == nil {
		vassert(vhSameBindings(got, want), "wrapper-agrees-with-the-matcher")
	}
	vreach("end")
}
