package PKG

// Verification primitives. The symbolic engine intercepts these functions by name;
// the bodies below are the native implementations used when a counterexample is
// replayed: they read the solver's assignment from the file named by $VERIF_REPLAY.

import (
	"bytes"
	"encoding/json"
	"fmt"
	"os"
	"reflect"
	"runtime"
	"sync/atomic"
	"time"
)

type vReplayT struct {
	Harness string                 `json:"harness"`
	Params  []int64                `json:"params"`
	Label   string                 `json:"label"`
	Inputs  map[string]interface{} `json:"inputs"`
	Choices []int64                `json:"choices"`
}

var (
	vReplay    *vReplayT
	vChoicePos int
	vFailed    []string
	vNowNs     int64 = 1600000000000000000
)

func vLoad() *vReplayT {
	if vReplay != nil {
		return vReplay
	}
	vReplay = &vReplayT{Inputs: map[string]interface{}{}}
	if p := os.Getenv("VERIF_REPLAY"); p != "" {
		b, err := os.ReadFile(p)
		if err != nil {
			panic(err)
		}
		dec := json.NewDecoder(bytes.NewReader(b))
		dec.UseNumber() // 64-bit integers must not go through float64
		if err := dec.Decode(vReplay); err != nil {
			panic(err)
		}
	}
	return vReplay
}

func vReset() { vReplay = nil; vChoicePos = 0; vFailed = nil }

func vsymStr(name string) string {
	if v, ok := vLoad().Inputs[name]; ok {
		if s, ok := v.(string); ok {
			return s
		}
	}
	return ""
}
func vsymStrN(name string, maxLen int) string { return vsymStr(name) }
func vsymInt(name string, lo, hi int) int {
	if v, ok := vLoad().Inputs[name]; ok {
		if f, ok := v.(json.Number); ok {
			n, _ := f.Int64()
			return int(n)
		}
	}
	return lo
}
func vsymInt64(name string, lo, hi int64) int64 {
	if v, ok := vLoad().Inputs[name]; ok {
		if f, ok := v.(json.Number); ok {
			n, _ := f.Int64()
			return n
		}
	}
	return lo
}
func vsymNum(name string, lo, hi int) float64 { return float64(vsymInt(name, lo, hi)) }
func vsymBool(name string) bool {
	if v, ok := vLoad().Inputs[name]; ok {
		if b, ok := v.(bool); ok {
			return b
		}
	}
	return false
}
func vchoose(n int) int {
	r := vLoad()
	if vChoicePos < len(r.Choices) {
		c := int(r.Choices[vChoicePos])
		vChoicePos++
		return c
	}
	vChoicePos++
	return 0
}

type vAssumeFailed struct{}

func vassume(c bool) {
	if !c {
		panic(vAssumeFailed{})
	}
}
func vassert(c bool, label string) {
	if !c {
		vFailed = append(vFailed, label)
		fmt.Printf("VFAIL %s\n", label)
	}
}
func vfail(label string)      { vassert(false, label) }
func vreach(label string)     {}
func vand(a, b bool) bool     { return a && b }
func vor(a, b bool) bool      { return a || b }
func vnot(a bool) bool        { return !a }
func vimplies(a, b bool) bool { return !a || b }
func vall(cs ...bool) bool {
	for _, c := range cs {
		if !c {
			return false
		}
	}
	return true
}
func vany(cs ...bool) bool {
	for _, c := range cs {
		if c {
			return true
		}
	}
	return false
}
func viteInt(c bool, a, b int64) int64 {
	if c {
		return a
	}
	return b
}
func vstrEq(a, b string) bool       { return a == b }
func vhasPrefix(s, p string) bool   { return len(s) >= len(p) && s[:len(p)] == p }
func vdeepEq(a, b interface{}) bool { return reflect.DeepEqual(a, b) }
func vsnapshot(v interface{}) interface{} {
	switch x := v.(type) {
	case map[string]interface{}:
		m := make(map[string]interface{}, len(x))
		for k, e := range x {
			m[k] = vsnapshot(e)
		}
		return m
	case []interface{}:
		if x == nil {
			return x
		}
		s := make([]interface{}, len(x))
		for i, e := range x {
			s[i] = vsnapshot(e)
		}
		return s
	}
	rv := reflect.ValueOf(v)
	if rv.IsValid() && rv.Kind() == reflect.Map {
		out := reflect.MakeMapWithSize(rv.Type(), rv.Len())
		it := rv.MapRange()
		for it.Next() {
			e := vsnapshot(it.Value().Interface())
			if e == nil {
				out.SetMapIndex(it.Key(), reflect.Zero(rv.Type().Elem()))
			} else {
				out.SetMapIndex(it.Key(), reflect.ValueOf(e))
			}
		}
		return out.Interface()
	}
	return v
}
func vsetNow(ns int64) { vNowNs = ns }
func vgetNow() int64 {
	if vRealClock {
		return time.Now().UnixNano()
	}
	return vNowNs
}

// vrealclock: the harness wants the real clock when replayed natively (its package is
// built without the time.Now redirection); a no-op for the engine.
func vrealclock() { vRealClock = true }

var vRealClock bool

// vyield: a scheduling point for the engine; natively a short real pause, so that a
// goroutine which has just been released gets to run before the caller goes on.
func vyield() { time.Sleep(300 * time.Microsecond) }

// vjitter: called from log hooks in the concurrent harnesses. Natively, when a
// schedule-dependent counterexample is being stressed ($VERIF_JITTER), it perturbs the
// schedule at every log record of the code under test (yield, or a sleep of up to ~100us),
// which widens windows of a few instructions to something a second goroutine can hit.
var vJitterOn = os.Getenv("VERIF_JITTER") != ""
var vJitterState uint64 = 88172645463325252

func vjitter() {
	if !vJitterOn {
		return
	}
	x := atomic.AddUint64(&vJitterState, 0x9e3779b97f4a7c15)
	x ^= x >> 29
	switch x & 15 {
	case 0, 1, 2, 3:
		runtime.Gosched()
	case 4:
		time.Sleep(time.Duration(1+(x>>8)%100) * time.Microsecond)
	}
}

// vquiesce: natively, make every armed timer due on the redirected clock and give the
// other goroutines real time to run.
func vquiesce() {
	if vRealClock {
		time.Sleep(1500 * time.Millisecond)
		return
	}
	vNowNs += 2000000
	time.Sleep(40 * time.Millisecond)
}
func vsymbolic() bool { return false }
func vnote(s string)  {}

// vottoSlow tells the engine's otto model how long the "slow" script runs (natively the
// real script sleeps by itself).
func vottoSlow(ns int64) {}
