package PKG

// Native-only helpers for replays: the replay build redirects time.Now / time.Sleep /
// time.Since in the package's sources to these functions (the redirection is generated
// from the current sources at replay time and never committed). A harness that called
// vrealclock() gets the real clock back.

import "time"

func vTimeNow() time.Time {
	if vRealClock {
		return time.Now()
	}
	return time.Unix(0, vNowNs)
}

func vTimeSleep(d time.Duration) {
	if vRealClock {
		time.Sleep(d)
		return
	}
	vNowNs += int64(d)
}

func vTimeSince(t time.Time) time.Duration { return vTimeNow().Sub(t) }
