package PKG

// Native-only helpers for replays: the replay build redirects time.Now / time.Sleep /
// time.Since in the package's sources to these functions (the redirection is generated
// from the current sources at replay time and never committed).

import "time"

func vTimeNow() time.Time                  { return time.Unix(0, vNowNs) }
func vTimeSleep(d time.Duration)           { vNowNs += int64(d) }
func vTimeSince(t time.Time) time.Duration { return vTimeNow().Sub(t) }
