package sys

// C09 through the System: locations are kept apart by their names as given — in the cache
// and in storage. Two location names that differ in anything (the solver picks them: case,
// surrounding white space, ...) never see each other's facts, whatever the cache TTL, and
// clearing one leaves the other alone.

func VH_C09_names(linear, ttl int) {
	vsetNow(vhBase)
	sys, ctx := vhSystem("N", ttl, false, linear == 1)
	n1, n2 := vsymStrN("name1", 2), vsymStrN("name2", 2)
	vassume(n1 != n2 && n1 != "" && n2 != "")
	_, err := sys.AddFact(ctx, n1, "f", `{"a":"b"}`)
	vassert(err == nil, "addfact-succeeds")
	_, err = sys.GetFact(ctx, n2, "f")
	vassert(err != nil, "other-location-does-not-see-the-fact")
	srs, err := sys.SearchFacts(ctx, n2, `{"a":"?x"}`, false)
	vassert(err == nil && srs != nil && len(srs.Found) == 0, "other-location-does-not-see-the-fact")
	_, err = sys.AddFact(ctx, n2, "g", `{"a":"c"}`)
	vassert(err == nil, "addfact-succeeds")
	vassert(sys.ClearLocation(ctx, n2) == nil, "clear-succeeds")
	js, err := sys.GetFact(ctx, n1, "f")
	vassert(err == nil && js != "", "operation-on-one-location-leaves-the-other-unchanged")
	vreach("end")
}
