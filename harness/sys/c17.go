package sys

// C17 — the location cache is transparent.
//
// Unit: CachedLocations.{expire,Open,Release}, CachedLocation.Get, System.{findLocation,
// releaseLocation,OpenLocation,newLocation,ensureStorage,CreateLocation,AddFact,GetFact,
// RemFact,SearchFacts} over the memory storage. The System API takes JSON text, so facts
// are concrete; the cache TTL, the instants between requests and the location names are
// symbolic.
//
//verif:bounds request histories <= 3 over <= 2 location names; TTL in {never, finite
// symbolic, forever}; CheckExistence on/off; both state implementations.

import (
	"strconv"
	"sync"
	"time"

	. "github.com/Comcast/rulio/core"
	"github.com/Comcast/rulio/cron"
)

const vhBase = int64(1600000000) * 1000000000

type vhNullCron struct{}

func (c *vhNullCron) ScheduleEvent(ctx *Context, work *cron.ScheduledEvent) error { return nil }
func (c *vhNullCron) Schedule(ctx *Context, work *cron.ScheduledWork) error       { return nil }
func (c *vhNullCron) Rem(ctx *Context, id string) (bool, error)                   { return false, nil }
func (c *vhNullCron) Persistent() bool                                            { return true }

// vhSystem: ttlKind 0 never, 1 finite (symbolic, 1ns..10s), 2 forever.
func vhSystem(tag string, ttlKind int, checkExistence bool, linear bool) (*System, *Context) {
	ctx := NewContext("c17" + tag)
	ctx.LogHook = func(level LogLevel, args ...interface{}) { vjitter() }
	conf := SystemConfig{Storage: "memory", CheckExistence: checkExistence, UnindexedState: linear}
	cont := SystemControl{}
	switch ttlKind {
	case 0:
		cont.LocationTTL = Never
	case 1:
		cont.LocationTTL = time.Duration(vsymInt64("ttl"+tag, 1, 10000000000))
	case 2:
		cont.LocationTTL = Forever
	}
	cont.DefaultLocControl = &Control{MaxFacts: 1000}
	sys, err := NewSystem(ctx, conf, cont, &vhNullCron{})
	vassume(err == nil)
	return sys, ctx
}

type vhResp struct {
	s   interface{}
	err bool
}

// vhRequest issues request op on sys and returns a comparable response.
func vhRequest(sys *System, ctx *Context, op int, loc string) vhResp {
	switch op {
	case 0:
		id, err := sys.AddFact(ctx, loc, "f1", `{"a":"b"}`)
		return vhResp{id, err != nil}
	case 1:
		js, err := sys.GetFact(ctx, loc, "f1")
		return vhResp{js, err != nil}
	case 2:
		id, err := sys.RemFact(ctx, loc, "f1")
		return vhResp{id, err != nil}
	case 3:
		srs, err := sys.SearchFacts(ctx, loc, `{"a":"?x"}`, false)
		n := -1
		if err == nil && srs != nil {
			n = len(srs.Found)
		}
		return vhResp{n, err != nil}
	case 4:
		created, err := sys.CreateLocation(ctx, loc)
		return vhResp{created, err != nil}
	case 5:
		id, err := sys.AddFact(ctx, loc, "f1", `{"a":"c"}`)
		return vhResp{id, err != nil}
	case 6:
		err := sys.DeleteLocation(ctx, loc)
		return vhResp{nil, err != nil}
	case 7: // a client writes the creation marker property itself, with an odd value
		_, err := sys.AddFact(ctx, loc, "", `{"!createdAt":5}`)
		return vhResp{nil, err != nil}
	case 14: // the marker property spelled with a JSON escape (\u0041 is "A")
		_, err := sys.AddFact(ctx, loc, "", "{\"!created\\u0041t\":5}")
		return vhResp{nil, err != nil}
	case 12: // a client writes under the id of the creation marker's property fact
		_, err := sys.AddFact(ctx, loc, "!.createdAt", `{"x":2}`)
		return vhResp{nil, err != nil}
	case 13: // ... or removes that id
		_, err := sys.RemFact(ctx, loc, "!.createdAt")
		return vhResp{nil, err != nil}
	case 11: // clearing a location removes its facts and rules; the location still exists
		err := sys.ClearLocation(ctx, loc)
		return vhResp{nil, err != nil}
	case 8: // the location's own cache hint, with a value that is not a number of milliseconds
		_, err := sys.AddFact(ctx, loc, "", `{"!cacheTTL":"5m"}`)
		return vhResp{nil, err != nil}
	case 10: // the location's own cache hint (milliseconds)
		if !vhHintSet {
			// concrete values (the API takes JSON text, which the engine parses only when concrete)
			vhHintSet, vhHint = true, []int{0, 1, 5000, 20000}[vchoose(4)]
		}
		_, err := sys.AddFact(ctx, loc, "", `{"!cacheTTL":`+strconv.Itoa(vhHint)+`}`)
		return vhResp{nil, err != nil}
	}
	vassume(false)
	return vhResp{}
}

// the symbolic cache hint is one value per history (both systems of a differential run get it)
var (
	vhHintSet bool
	vhHint    int
)

func vhLocName(i int) string { return "loc" + strconv.Itoa(i) }

// VH_C17_differential: the same request history under two cache TTL settings gives the
// same responses.
func VH_C17_differential(linear, ttlA, ttlB, op1, op2, op3 int) {
	vsetNow(vhBase)
	sa, ca := vhSystem("A", ttlA, false, linear == 1)
	sb, cb := vhSystem("B", ttlB, false, linear == 1)
	now := vhBase
	for step, op := range []int{op1, op2, op3} {
		if op == 9 {
			continue
		}
		// an arbitrary amount of time passes before each request
		dt := vsymInt64("dt"+strconv.Itoa(step), 0, 20000000000)
		now += dt
		vsetNow(now)
		loc := vhLocName(vchoose(2))
		ra := vhRequest(sa, ca, op, loc)
		rb := vhRequest(sb, cb, op, loc)
		vassert(ra.err == rb.err, "same-error-status-under-any-ttl")
		if !ra.err && !rb.err {
			vassert(vdeepEq(ra.s, rb.s), "same-response-under-any-ttl")
		}
	}
	vreach("end")
}

// VH_C17_existence: with existence checking on, requests to a location that was never
// created fail and do not create it.
func VH_C17_existence(linear, ttl, op int) {
	vsetNow(vhBase)
	sys, ctx := vhSystem("A", ttl, true, linear == 1)
	r := vhRequest(sys, ctx, op, "ghost")
	if op != 4 {
		vassert(r.err, "request-to-uncreated-location-fails")
		// still not created: a second request fails too, and nothing is cached
		r2 := vhRequest(sys, ctx, 1, "ghost")
		vassert(r2.err, "request-to-uncreated-location-fails")
		vassert(sys.CachedLocations.Count() == 0, "failed-open-leaves-nothing-cached")
	}
	// after creation requests work
	_, err := sys.CreateLocation(ctx, "ghost")
	vassert(err == nil, "create-succeeds")
	r3 := vhRequest(sys, ctx, 0, "ghost")
	vassert(!r3.err, "request-after-create-succeeds")
	vreach("end")
}

// VH_C17_reuse: an entry is reused iff it is unexpired; with Forever exactly one load per
// name; Open never returns a nil location without an error.
func VH_C17_reuse(linear, ttl int) {
	vsetNow(vhBase)
	sys, ctx := vhSystem("A", ttl, false, linear == 1)
	l1, err1 := sys.findLocation(ctx, "loc0", false)
	vassert(err1 == nil && l1 != nil, "open-returns-location-or-error")
	sys.releaseLocation(ctx, "loc0")
	dt := vsymInt64("dt", 0, 20000000000)
	vsetNow(vhBase + dt)
	l2, err2 := sys.findLocation(ctx, "loc0", false)
	vassert(err2 == nil && l2 != nil, "open-returns-location-or-error")
	sys.releaseLocation(ctx, "loc0")
	same := l1 == l2
	if ttl == 2 {
		vassert(same, "forever-means-single-load")
	}
	// (when an expired entry is dropped — at the release that finds it expired — is an
	// internal matter; the property only asks for transparency, see VH_C17_differential)
	vreach("end")
}

// VH_C17_single_load [concurrency mode]: two goroutines make the first request for the
// same location at the same time: the location is loaded once and both get one instance.
func VH_C17_single_load(linear, ttl int) { vhC17SingleLoad(linear, ttl, false) }

// VH_C17_single_load_late: the second request arrives an arbitrary time after the first
// one started (possibly after the first one's cache entry would have expired).
func VH_C17_single_load_late(linear, ttl int) { vhC17SingleLoad(linear, ttl, true) }

func vhC17SingleLoad(linear, ttl int, late bool) {
	vsetNow(vhBase)
	sys, ctx := vhSystem("A", ttl, false, linear == 1)
	var wg sync.WaitGroup
	wg.Add(2)
	var l1, l2 *Location
	var e1, e2 error
	c1, c2 := ctx.SubContext(), ctx.SubContext()
	go func() {
		l1, e1 = sys.findLocation(c1, "shared", false)
		wg.Done()
	}()
	go func() {
		if late {
			vsetNow(vhBase + vsymInt64("delta", 0, 20000000000))
		}
		l2, e2 = sys.findLocation(c2, "shared", false)
		wg.Done()
	}()
	wg.Wait()
	vassert(e1 == nil && e2 == nil && l1 != nil && l2 != nil, "open-returns-location-or-error")
	vassert(l1 == l2, "concurrent-first-requests-share-one-instance")
	sys.releaseLocation(c1, "shared")
	sys.releaseLocation(c2, "shared")
	vreach("end")
}

// VH_C17_overlap: one writer whose request is in flight (its location opened, its write and
// release still to come) while other requests to the same location run to completion, with
// arbitrary amounts of time passing in between; a read issued after the writer was
// acknowledged must see the write ("the cache never serves state that misses an
// acknowledged write"). The writer's three steps are the ones System.AddFact performs
// (findLocation, Location.AddFact, releaseLocation); the other requests go through the
// public System API. nBefore requests run between the writer's open and its write,
// nAfter between its write and its release.
func VH_C17_overlap(linear, ttl, nBefore, nAfter int) {
	vsetNow(vhBase)
	sys, ctx := vhSystem("A", ttl, false, linear == 1)
	now := vhBase
	tick := func(tag string) {
		now += vsymInt64(tag, 0, 20000000000)
		vsetNow(now)
	}
	wctx := ctx.SubContext()
	loc, err := sys.findLocation(wctx, "shared", true)
	vassume(err == nil && loc != nil)
	// the other requests go to the writer's location or to one nobody has asked for yet
	// (a cache miss: C11's "requests to different locations do not interfere")
	target := func(tag string) string { return []string{"shared", "other" + tag}[vchoose(2)] }
	for i := 0; i < nBefore; i++ {
		tick("b" + strconv.Itoa(i))
		sys.GetFact(ctx.SubContext(), target("b"+strconv.Itoa(i)), "k")
	}
	tick("w")
	_, err = loc.AddFact(wctx, "k", Map{"a": "1"})
	vassume(err == nil)
	for i := 0; i < nAfter; i++ {
		tick("a" + strconv.Itoa(i))
		sys.GetFact(ctx.SubContext(), target("a"+strconv.Itoa(i)), "k")
	}
	tick("r")
	vassume(sys.releaseLocation(wctx, "shared") == nil)
	// the writer has been acknowledged
	tick("e")
	_, err = sys.GetFact(ctx.SubContext(), "shared", "k")
	vassert(err == nil, "acknowledged-write-visible-to-later-request")
	vreach("end")
}

// VH_C17_diff_exist: the differential check with existence checking on: a created location,
// then a history that may delete and re-create it, under two cache TTL settings.
func VH_C17_diff_exist(linear, ttlA, ttlB, op1, op2, op3 int) {
	vsetNow(vhBase)
	sa, ca := vhSystem("A", ttlA, true, linear == 1)
	sb, cb := vhSystem("B", ttlB, true, linear == 1)
	_, err := sa.CreateLocation(ca, "loc0")
	vassume(err == nil)
	_, err = sb.CreateLocation(cb, "loc0")
	vassume(err == nil)
	now := vhBase
	for step, op := range []int{op1, op2, op3} {
		if op == 9 {
			continue
		}
		dt := vsymInt64("dt"+strconv.Itoa(step), 0, 20000000000)
		now += dt
		vsetNow(now)
		ra := vhRequest(sa, ca, op, "loc0")
		rb := vhRequest(sb, cb, op, "loc0")
		vassert(ra.err == rb.err, "same-error-status-under-any-ttl")
		if !ra.err && !rb.err {
			vassert(vdeepEq(ra.s, rb.s), "same-response-under-any-ttl")
		}
	}
	vreach("end")
}

// VH_C17_delete_busy: with existence checking, a location is deleted (and the deletion
// acknowledged) while another request still has it open. From the acknowledgement on the
// location does not exist, whatever the cache TTL: requests fail instead of being served
// from the instance the busy request keeps alive, and they do not re-create it.
func VH_C17_delete_busy(linear, ttl int) {
	vsetNow(vhBase)
	sys, ctx := vhSystem("D", ttl, true, linear == 1)
	now := vhBase
	tick := func(tag string) {
		now += vsymInt64(tag, 0, 20000000000)
		vsetNow(now)
	}
	_, err := sys.CreateLocation(ctx.SubContext(), "shared")
	vassume(err == nil)
	wctx := ctx.SubContext()
	loc, err := sys.findLocation(wctx, "shared", true)
	vassume(err == nil && loc != nil)
	tick("d")
	vassert(sys.DeleteLocation(ctx.SubContext(), "shared") == nil, "delete-succeeds")
	if vchoose(2) == 1 {
		// a request arrives while the busy one is still open ...
		tick("m")
		_, err = sys.AddFact(ctx.SubContext(), "shared", "k", `{"a":"1"}`)
		vassert(err != nil, "deleted-location-does-not-exist")
	}
	tick("r")
	vassume(sys.releaseLocation(wctx, "shared") == nil)
	// ... or after it has finished
	tick("e")
	_, err = sys.AddFact(ctx.SubContext(), "shared", "k", `{"a":"1"}`)
	vassert(err != nil, "deleted-location-does-not-exist")
	_, err = sys.GetFact(ctx.SubContext(), "shared", "k")
	vassert(err != nil, "deleted-location-does-not-exist")
	vreach("end")
}

// VH_C17_release_after_delete: request 1 has the location open when it is deleted; request
// 2 then opens it again (a new entry, a new instance) and is still working when request 1
// finishes. Request 1's release must not count against request 2's entry: request 2's
// acknowledged write is visible to every later request.
func VH_C17_release_after_delete(linear, ttl int) {
	vsetNow(vhBase)
	sys, ctx := vhSystem("R", ttl, false, linear == 1)
	now := vhBase
	tick := func(tag string) {
		now += vsymInt64(tag, 0, 20000000000)
		vsetNow(now)
	}
	w1 := ctx.SubContext()
	loc1, err := sys.findLocation(w1, "shared", true)
	vassume(err == nil && loc1 != nil)
	tick("d")
	vassume(sys.DeleteLocation(ctx.SubContext(), "shared") == nil)
	tick("o")
	w2 := ctx.SubContext()
	loc2, err := sys.findLocation(w2, "shared", true)
	vassume(err == nil && loc2 != nil)
	tick("r1")
	vassume(sys.releaseLocation(w1, "shared") == nil)
	tick("g")
	sys.GetFact(ctx.SubContext(), "shared", "k")
	tick("w")
	_, err = loc2.AddFact(w2, "k", Map{"a": "1"})
	vassume(err == nil)
	tick("r2")
	vassume(sys.releaseLocation(w2, "shared") == nil)
	tick("e")
	_, err = sys.GetFact(ctx.SubContext(), "shared", "k")
	vassert(err == nil, "acknowledged-write-visible-to-later-request")
	vreach("end")
}

// VH_C17_ghost_parent: with existence checking, a created location names a parent that was
// never created. Whatever the child's inherited search does with that parent, requests
// addressed to the parent itself keep failing (and do not create it), under every TTL.
func VH_C17_ghost_parent(linear, ttl int) {
	vsetNow(vhBase)
	sys, ctx := vhSystem("G", ttl, true, linear == 1)
	_, err := sys.CreateLocation(ctx.SubContext(), "child")
	vassume(err == nil)
	_, err = sys.SetParents(ctx.SubContext(), "child", []string{"ghost"})
	vassume(err == nil)
	sys.SearchFacts(ctx.SubContext(), "child", `{"a":"?x"}`, true)
	_, err = sys.AddFact(ctx.SubContext(), "ghost", "k", `{"a":"1"}`)
	vassert(err != nil, "never-created-location-fails")
	_, err = sys.GetFact(ctx.SubContext(), "ghost", "k")
	vassert(err != nil, "never-created-location-fails")
	vreach("end")
}
