package sys

// C11 — concurrent requests to different locations do not interfere.
//
// Unit: System.{AddFact,GetFact,SearchFacts,RemFact} -> CachedLocations.Open/Release,
// CachedLocation.Get, OpenLocation, newLocation, ensureStorage, states, MemStorage, from
// two goroutines that each own one location, starting on a fresh System (so the very
// first requests are covered). Concurrency mode: every synchronisation operation is a
// scheduling decision; the vector-clock monitor reports unordered conflicting accesses.
//
//verif:bounds 2 clients x 2 requests (add then get/search); preemption bound 2; both states.

import "sync"

// VH_C11_pair: clients A and B on locations locA / locB.
func VH_C11_pair(linear, opA, opB int) { vhC11Pair(linear, opA, opB, 2) }

// VH_C11_pair_ttl: the same under cache TTL never (0) or finite (1): every request then
// works on what the System's storage holds, so a location bound to another storage
// instance shows.
func VH_C11_pair_ttl(linear, opA, opB, ttl int) { vhC11Pair(linear, opA, opB, ttl) }

func vhC11Pair(linear, opA, opB, ttl int) {
	vsetNow(vhBase)
	sys, ctx := vhSystem("A", ttl, false, linear == 1)
	var wg sync.WaitGroup
	wg.Add(2)
	var ra1, ra2, rb1, rb2 vhResp
	ca, cb := ctx.SubContext(), ctx.SubContext()
	// op 9 = no second request (the very first requests alone are the heavy case)
	go func() {
		ra1 = vhRequest(sys, ca, 0, "locA")
		if opA != 9 {
			ra2 = vhRequest(sys, ca, opA, "locA")
		}
		wg.Done()
	}()
	go func() {
		rb1 = vhRequest(sys, cb, 5, "locB")
		if opB != 9 {
			rb2 = vhRequest(sys, cb, opB, "locB")
		}
		wg.Done()
	}()
	wg.Wait()
	// each client sees what it would have seen alone
	solo, sctx := vhSystem("S", ttl, false, linear == 1)
	sa1 := vhRequest(solo, sctx, 0, "locA")
	var sa2, sb2 vhResp
	if opA != 9 {
		sa2 = vhRequest(solo, sctx, opA, "locA")
	}
	sb1 := vhRequest(solo, sctx, 5, "locB")
	if opB != 9 {
		sb2 = vhRequest(solo, sctx, opB, "locB")
	}
	vassert(ra1.err == sa1.err && ra2.err == sa2.err && rb1.err == sb1.err && rb2.err == sb2.err, "same-error-status-as-alone")
	if !ra2.err && !sa2.err {
		vassert(vdeepEq(ra2.s, sa2.s), "same-response-as-alone")
	}
	if !rb2.err && !sb2.err {
		vassert(vdeepEq(rb2.s, sb2.s), "same-response-as-alone")
	}
	// final per-location state equals the sequential run
	fa := vhRequest(sys, ctx, 1, "locA")
	fs := vhRequest(solo, sctx, 1, "locA")
	vassert(fa.err == fs.err && (fa.err || vdeepEq(fa.s, fs.s)), "final-state-as-sequential")
	fb := vhRequest(sys, ctx, 1, "locB")
	fsb := vhRequest(solo, sctx, 1, "locB")
	vassert(fb.err == fsb.err && (fb.err || vdeepEq(fb.s, fsb.s)), "final-state-as-sequential")
	// and so does what the System's storage holds for each location
	for _, name := range []string{"locA", "locB"} {
		got, err1 := sys.storage.Load(ctx, name)
		want, err2 := solo.storage.Load(sctx, name)
		vassert(err1 == nil && err2 == nil && len(got) == len(want), "stored-state-as-sequential")
	}
	vreach("end")
}
