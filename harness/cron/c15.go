package cron

// C15 — scheduled rules run when due, per location, and never after removal.
//
// Unit: cron.AddHooks (both closures, getSchedule), the hook call sites of both states
// (add, Rem, remHooks, Clear, Load with the loading flag), Location.AddRule/RemRule/
// RemFact/Clear/ProcessEvent, FindRules.Do's trigger! path, RuleDone.Do, OneShotSchedule.
// The Cronner is a harness implementation (persistent or ephemeral) that records
// registrations per (location, id) and whose ticks are delivered as trigger! events.
//
//verif:bounds histories <= 3 over {add scheduled rule (recurring / one-shot), add ordinary
// rule, remove, remove the fact a rule depends on (cascade), clear, reload} on one
// location with ids r0,r1; then a tick for every registered job; both states; persistent
// and ephemeral cron.

import (
	"strconv"
	"time"

	"github.com/Comcast/rulio/core"
)

type vhJob struct {
	loc, id, schedule string
}

type vhCronner struct {
	persistent bool
	jobs       []*vhJob
}

func (c *vhCronner) find(loc, id string) int {
	for i, j := range c.jobs {
		if j.loc == loc && j.id == id {
			return i
		}
	}
	return -1
}

func (c *vhCronner) ScheduleEvent(ctx *core.Context, se *ScheduledEvent) error {
	loc := ctx.Location().Name
	if i := c.find(loc, se.Id); i >= 0 {
		c.jobs[i].schedule = se.Schedule
		return nil
	}
	c.jobs = append(c.jobs, &vhJob{loc, se.Id, se.Schedule})
	return nil
}
func (c *vhCronner) Schedule(ctx *core.Context, work *ScheduledWork) error { return nil }
func (c *vhCronner) Rem(ctx *core.Context, id string) (bool, error) {
	loc := ctx.Location().Name
	if i := c.find(loc, id); i >= 0 {
		c.jobs = append(c.jobs[:i:i], c.jobs[i+1:]...)
		return true, nil
	}
	return false, nil
}
func (c *vhCronner) Persistent() bool { return c.persistent }

type vhRec struct {
	ran []string // rule ids whose action ran
}

func (r *vhRec) GetName() string { return "vh" }
func (r *vhRec) GetThunk(ctx *core.Context, loc *core.Location, bs core.Bindings, a core.Action) (func() (interface{}, error), error) {
	return func() (interface{}, error) {
		id, _ := bs["?ruleId"].(string)
		r.ran = append(r.ran, id)
		return "ok", nil
	}, nil
}

type vhC15Env struct {
	kind    int
	ctx     *core.Context
	store   *core.MemStorage
	cronner *vhCronner
	rec     *vhRec
	loc     *core.Location
	state   core.State
}

func vhC15Open(e *vhC15Env) {
	ctx := core.NewContext("c15")
	var st core.State
	var err error
	if e.kind == 0 {
		st, err = core.NewIndexedState(ctx, "here", e.store)
	} else {
		st, err = core.NewLinearState(ctx, "here", e.store)
	}
	vassume(err == nil)
	vassume(AddHooks(ctx, e.cronner, st) == nil)
	loc, err := core.NewLocation(ctx, "here", st, nil)
	vassume(err == nil)
	c := core.DefaultControl()
	c.ActionInterpreters = map[string]core.ActionInterpreter{"vh": e.rec}
	loc.SetControl(c)
	e.ctx, e.state, e.loc = ctx, st, loc
}

func vhC15New(kind int, persistent bool) *vhC15Env {
	vsetNow(vhBase)
	ctx := core.NewContext("c15")
	store, err := core.NewMemStorage(ctx)
	vassume(err == nil)
	e := &vhC15Env{kind: kind, store: store, cronner: &vhCronner{persistent: persistent}, rec: &vhRec{}}
	vhC15Open(e)
	return e
}

func vhSchedRule(schedule string) core.Map {
	return core.Map{"schedule": schedule, "action": map[string]interface{}{"endpoint": "vh", "code": "x"}}
}

func vhPlainRule() core.Map {
	return core.Map{"when": map[string]interface{}{"pattern": map[string]interface{}{"a": "?x"}},
		"action": map[string]interface{}{"endpoint": "vh", "code": "x"}}
}

type vhC15Ref struct {
	scheduled bool // a scheduled rule is stored under the id
	schedule  string
	live      bool
	dependsOn string // deleteWith target ("" none)
}

// vhC15Op applies one operation; ref is indexed by rule number (ids r0, r1).
func vhC15Op(e *vhC15Env, ref []*vhC15Ref, op int) {
	i := 0
	if op != 6 && op != 7 && op != 8 {
		i = vchoose(2)
	}
	id := "r" + strconv.Itoa(i)
	r := ref[i]
	switch op {
	case 0: // recurring scheduled rule
		_, err := e.loc.AddRule(e.ctx, id, vhSchedRule("* * * * *"))
		vassert(err == nil, "addrule-succeeds")
		*r = vhC15Ref{scheduled: true, schedule: "* * * * *", live: true}
	case 1: // one-shot scheduled rule
		_, err := e.loc.AddRule(e.ctx, id, vhSchedRule("+1s"))
		vassert(err == nil, "addrule-succeeds")
		*r = vhC15Ref{scheduled: true, schedule: "+1s", live: true}
	case 2: // ordinary rule (possibly replacing a scheduled one)
		_, err := e.loc.AddRule(e.ctx, id, vhPlainRule())
		vassert(err == nil, "addrule-succeeds")
		*r = vhC15Ref{live: true}
	case 3: // remove
		_, err := e.loc.RemRule(e.ctx, id)
		if r.live {
			vassert(err == nil, "remrule-succeeds")
		}
		*r = vhC15Ref{}
	case 4: // scheduled rule that depends on fact "dep"
		_, err := e.loc.AddFact(e.ctx, "dep", core.Map{"k": "v"})
		vassume(err == nil)
		rule := vhSchedRule("* * * * *")
		rule[core.KW_DeleteWith] = []interface{}{"dep"}
		_, err = e.loc.AddRule(e.ctx, id, rule)
		vassert(err == nil, "addrule-succeeds")
		*r = vhC15Ref{scheduled: true, schedule: "* * * * *", live: true, dependsOn: "dep"}
	case 5: // remove the fact "dep": rules depending on it go with it
		_, err := e.loc.RemFact(e.ctx, "dep")
		_ = err
		for _, x := range ref {
			if x.dependsOn == "dep" {
				*x = vhC15Ref{}
			}
		}
	case 6: // clear the location
		vassert(e.loc.Clear(e.ctx) == nil, "clear-succeeds")
		for _, x := range ref {
			*x = vhC15Ref{}
		}
	case 7: // reload from storage (process restart): an ephemeral cron starts empty
		if !e.cronner.persistent {
			e.cronner.jobs = nil
		}
		vhC15Open(e)
	case 8:
	default:
		vassume(false)
	}
}

// vhC15Check: registered jobs = live scheduled rules; ticks run exactly those.
func vhC15Check(e *vhC15Env, ref []*vhC15Ref) {
	for i, r := range ref {
		id := "r" + strconv.Itoa(i)
		registered := e.cronner.find("here", id) >= 0
		vassert(registered == (r.live && r.scheduled), "registered-iff-live-scheduled-rule")
	}
	vassert(len(e.cronner.jobs) <= 2, "no-foreign-registrations")
	// deliver one tick per registered job
	jobs := append([]*vhJob{}, e.cronner.jobs...)
	for _, j := range jobs {
		e.rec.ran = nil
		e.loc.ProcessEvent(e.ctx, core.Map{"trigger!": j.id})
		n := 0
		for _, id := range e.rec.ran {
			if id == j.id {
				n++
			}
		}
		idx := 0
		if j.id == "r1" {
			idx = 1
		}
		r := ref[idx]
		if r.live && r.scheduled {
			vassert(n == 1 && len(e.rec.ran) == 1, "tick-runs-its-rule-once")
			if core.OneShotSchedule(r.schedule) {
				_, err := e.loc.GetRule(e.ctx, j.id)
				vassert(err != nil, "one-shot-rule-deleted-after-run")
			}
		} else {
			vassert(len(e.rec.ran) == 0, "tick-never-runs-removed-or-unscheduled-rule")
		}
	}
}

func VH_C15_hist(kind, persistent, op1, op2, op3 int) {
	e := vhC15New(kind, persistent == 1)
	ref := []*vhC15Ref{{}, {}}
	vhC15Op(e, ref, op1)
	vhC15Op(e, ref, op2)
	vhC15Op(e, ref, op3)
	vhC15Check(e, ref)
	vreach("end")
}

// VH_C15_witness_cascade: a scheduled rule deleted as a dependent (deleteWith) stays
// registered with the cron: the states' internal rem does not call the remove hook (open
// finding; the same holds for deletion by expiry).
func VH_C15_witness_cascade(kind int) {
	e := vhC15New(kind, false)
	ref := []*vhC15Ref{{}, {}}
	vhC15Op(e, ref, 4)
	vhC15Op(e, ref, 5)
	vhC15Check(e, ref)
	vreach("end")
}

// VH_C15_oneshot_cond: a one-shot scheduled rule with a condition: its due tick evaluates
// the condition; whether or not the condition holds, the one-shot is spent — the rule is
// deleted after that tick and a later reload does not register it again. holds: a fact
// satisfying the condition exists (1) or not (0).
func VH_C15_oneshot_cond(kind, holds int) {
	e := vhC15New(kind, false)
	r := vhSchedRule("+1h")
	r["condition"] = map[string]interface{}{"pattern": map[string]interface{}{"c": "?y"}}
	_, err := e.loc.AddRule(e.ctx, "r0", r)
	vassume(err == nil)
	if holds == 1 {
		_, err = e.loc.AddFact(e.ctx, "f", core.Map{"c": "v"})
		vassume(err == nil)
	}
	vassert(e.cronner.find("here", "r0") >= 0, "registered-iff-live-scheduled-rule")
	e.rec.ran = nil
	e.loc.ProcessEvent(e.ctx, core.Map{"trigger!": "r0"})
	vassert(len(e.rec.ran) == holds, "tick-runs-actions-iff-condition-holds")
	_, gerr := e.loc.GetRule(e.ctx, "r0")
	vassert(gerr != nil, "one-shot-rule-deleted-after-run")
	vreach("end")
}

// VH_C13_hooked (property C13, in package cron because it needs the cron hooks a System
// installs): a fact whose "rule" has an ill-typed "schedule" is refused by the add hook;
// after that refusal (or acceptance) the location still dispatches its other rules.
// sk: the JSON kind of the odd schedule (0 number, 1 null, 2 bool, 3 array, 4 map,
// 5 empty string); withWhen: the odd rule also has a when-pattern.
func VH_C13_hooked(kind, sk, withWhen int) {
	e := vhC15New(kind, false)
	_, err := e.loc.AddRule(e.ctx, "r0", vhPlainRule())
	vassume(err == nil)
	var sched interface{}
	switch sk {
	case 0:
		sched = float64(vsymInt("sched.n", 0, 99))
	case 1:
		sched = nil
	case 2:
		sched = vsymBool("sched.b")
	case 3:
		sched = []interface{}{"+1s"}
	case 4:
		sched = map[string]interface{}{"in": "+1s"}
	case 5:
		sched = ""
	}
	rule := map[string]interface{}{"schedule": sched, "action": map[string]interface{}{"endpoint": "vh", "code": "x"}}
	if withWhen == 1 {
		rule["when"] = map[string]interface{}{"pattern": map[string]interface{}{"a": "?y"}}
	}
	e.loc.AddFact(e.ctx, "odd", core.Map{"rule": rule}) // refused or accepted: both are answers
	e.rec.ran = nil
	// the next requests come with a context of their own
	e.ctx = core.NewContext("canary")
	_, cond := e.loc.ProcessEvent(e.ctx, core.Map{"a": "1"})
	vassert(cond == nil, "canary-after-op")
	n := 0
	for _, id := range e.rec.ran {
		if id == "r0" {
			n++
		}
	}
	vassert(n == 1, "canary-after-op")
	_, err = e.loc.AddFact(e.ctx, "later", core.Map{"k": "v"})
	vassert(err == nil, "canary-after-op")
	vreach("end")
}

// VH_C10_hooked_expired (property C10/C01, in package cron because it needs the cron
// hooks): a rule written with an expiry runs out unobserved; a rule without expiry is then
// written under the same id with the same pattern: it is live and must be dispatched.
func VH_C10_hooked_expired(kind int) {
	e := vhC15New(kind, false)
	r := vhPlainRule()
	// package cron replays natively against the real clock: times are relative to it
	vrealclock()
	r["expires"] = float64(vgetNow()/1000000000 + 2)
	_, err := e.loc.AddRule(e.ctx, "r0", r)
	vassume(err == nil)
	time.Sleep(3 * time.Second)
	_, err = e.loc.AddRule(e.ctx, "r0", vhPlainRule())
	vassert(err == nil, "addrule-succeeds")
	_, gerr := e.loc.GetRule(e.ctx, "r0")
	vassert(gerr == nil, "re-added-rule-is-stored")
	e.rec.ran = nil
	_, cond := e.loc.ProcessEvent(e.ctx, core.Map{"a": "1"})
	vassert(cond == nil, "event-complete")
	vassert(len(e.rec.ran) == 1, "fires-iff-live-enabled-matching")
	vreach("end")
}

// ---- the real in-process cron behind the hooks ------------------------------------------
//
// One InternalCron (over the real Cron loop) serves every location of a System. Two
// locations hold a scheduled rule under the same id; each tick must run the rule of the
// location that registered it, once, and removing the rule in one location must leave the
// other location's job alone.

type vhC15Site struct {
	ctx *core.Context
	loc *core.Location
	rec *vhRec
}

func vhC15Site_(kind int, name string, ic *InternalCron) *vhC15Site {
	ctx := core.NewContext("c15" + name)
	store, err := core.NewMemStorage(ctx)
	vassume(err == nil)
	var st core.State
	if kind == 0 {
		st, err = core.NewIndexedState(ctx, name, store)
	} else {
		st, err = core.NewLinearState(ctx, name, store)
	}
	vassume(err == nil)
	vassume(AddHooks(ctx, ic, st) == nil)
	loc, err := core.NewLocation(ctx, name, st, nil)
	vassume(err == nil)
	rec := &vhRec{}
	c := core.DefaultControl()
	c.ActionInterpreters = map[string]core.ActionInterpreter{"vh": rec}
	loc.SetControl(c)
	return &vhC15Site{ctx, loc, rec}
}

// VH_C15_internal: variant 0: both rules stay; 1: location A's rule is removed before it is
// due; 2: location A's rule is replaced by an event rule before it is due; 3: location A is
// read-only when its tick arrives.
func VH_C15_internal(kind, variant int) {
	vrealclock()
	vsetNow(vhBase)
	cr, err := NewCron(NewCronBroadcaster(), 0, "verif", 100)
	vassume(err == nil)
	ic := &InternalCron{Cron: cr}
	a := vhC15Site_(kind, "la", ic)
	b := vhC15Site_(kind, "lb", ic)
	cr.Start(a.ctx)
	vquiesce()
	schedA := "+300ms"
	if variant == 5 {
		schedA = " +300ms" // the schedule parser trims white space; so must everybody else
	}
	_, err = a.loc.AddRule(a.ctx, "r1", vhSchedRule(schedA))
	vassert(err == nil, "addrule-succeeds")
	_, err = b.loc.AddRule(b.ctx, "r1", vhSchedRule("+400ms"))
	vassert(err == nil, "addrule-succeeds")
	switch variant {
	case 1:
		_, err = a.loc.RemRule(a.ctx, "r1")
		vassert(err == nil, "remrule-succeeds")
	case 2:
		_, err = a.loc.AddRule(a.ctx, "r1", vhPlainRule())
		vassert(err == nil, "addrule-succeeds")
	case 4:
		// the context that registered location A's rule goes on to work on location B (a
		// request that touches two locations, say a child and the parent it loads): the tick
		// still belongs to the location the rule is in
		_, err = b.loc.AddFact(a.ctx, "other", core.Map{"k": "v"})
		vassert(err == nil, "addfact-succeeds")
	case 3:
		// the tick's work partly fails: the one-shot rule cannot be retired from a
		// location that has become read-only; its action still ran once, not more
		a.loc.SetReadOnly(a.ctx, true)
	}
	vquiesce()
	if variant == 0 || variant == 5 {
		_, gerr := a.loc.GetRule(a.ctx, "r1")
		vassert(gerr != nil, "one-shot-rule-deleted-after-its-tick")
	}
	if variant == 0 || variant == 3 || variant == 4 || variant == 5 {
		vassert(len(a.rec.ran) == 1, "each-location-runs-its-own-scheduled-rule")
	} else {
		vassert(len(a.rec.ran) == 0, "removed-rule-no-longer-runs")
	}
	vassert(len(b.rec.ran) == 1, "each-location-runs-its-own-scheduled-rule")
	cr.Kill(a.ctx)
	vquiesce()
	vreach("end")
}
