package cron

// C16 — cron services fire each job when due, once, and never after removal.
//
// Timeline, inductive step. Unit: Cron.schedule, insert, rem, Rem, Add (one-shot
// schedules), Timeline.Search/Less. Pre-state: an arbitrary Timeline of n <= 3 jobs with
// symbolic due times and ids satisfying the representation invariant (sorted by Next,
// ids pairwise distinct); one operation with symbolic arguments; the invariant is
// re-established and membership is exactly as specified. Because the pre-state is
// arbitrary this covers operation histories of any length (for timelines up to the bound).
//
//verif:bounds timeline length <= 3 before the operation; due times within 10^6 ns of the
// base; ids symbolic (len<=3); one-shot jobs (no cron expression).

import (
	"strconv"
	"time"

	"github.com/Comcast/rulio/core"
)

const vhBase = int64(1600000000) * 1000000000

func vhTimeline(c *Cron, n int) ([]string, []int64) {
	var ids []string
	var nexts []int64
	prev := vhBase
	for i := 0; i < n; i++ {
		id := vsymStrN("id"+strconv.Itoa(i), 3)
		for _, o := range ids {
			vassume(id != o)
		}
		next := vsymInt64("next"+strconv.Itoa(i), vhBase, vhBase+1000000)
		vassume(next >= prev) // sorted
		prev = next
		ids = append(ids, id)
		nexts = append(nexts, next)
		c.Timeline = append(c.Timeline, &CronJob{Id: id, Next: time.Unix(0, next)})
	}
	return ids, nexts
}

func vhSorted(c *Cron) bool {
	ok := true
	for i := 0; i+1 < len(c.Timeline); i++ {
		ok = vand(ok, !c.Timeline[i+1].Next.Before(c.Timeline[i].Next))
	}
	return ok
}

func vhUniqueIds(c *Cron) bool {
	ok := true
	for i := 0; i < len(c.Timeline); i++ {
		for j := i + 1; j < len(c.Timeline); j++ {
			ok = vand(ok, c.Timeline[i].Id != c.Timeline[j].Id)
		}
	}
	return ok
}

func vhCount(c *Cron, id string) int64 {
	n := int64(0)
	for _, j := range c.Timeline {
		n += viteInt(j.Id == id, 1, 0)
	}
	return n
}

func vhNewCron(limit int) *Cron {
	vrealclock() // package cron replays natively against the real clock
	vsetNow(vhBase)
	c, err := NewCron(nil, 0, "verif", limit)
	vassume(err == nil)
	return c
}

// VH_C16_schedule: schedule a job (new id or replacing an existing one) into an arbitrary
// valid timeline.
func VH_C16_schedule(n int) { vhC16Schedule(n, true) }

// VH_C16_reschedule: the same step as the firing loop takes it for a recurring job
// (schedule without the capacity check).
func VH_C16_reschedule(n int) { vhC16Schedule(n, false) }

func vhC16Schedule(n int, checkLimit bool) {
	c := vhNewCron(10)
	ids, nexts := vhTimeline(c, n)
	ctx := core.NewContext("c16")
	id := vsymStrN("newid", 3)
	next := vsymInt64("newnext", vhBase, vhBase+1000000)
	job := &CronJob{Id: id, Next: time.Unix(0, next)}
	err := c.schedule(ctx, job, checkLimit)
	vassert(err == nil, "schedule-succeeds-under-limit")
	vassert(vhSorted(c), "timeline-sorted")
	vassert(vhUniqueIds(c), "at-most-one-entry-per-id")
	vassert(vhCount(c, id) == 1, "scheduled-job-present-once")
	// the entry for id carries the new due time
	for _, j := range c.Timeline {
		if j == job {
			vassert(j.Next.Equal(time.Unix(0, next)), "scheduled-job-has-new-due-time")
		}
	}
	// every other job is still there exactly once with its due time
	for i, o := range ids {
		if o != id {
			vassert(vhCount(c, o) == 1, "other-jobs-kept")
			for _, j := range c.Timeline {
				if j.Id == o {
					vassert(j.Next.Equal(time.Unix(0, nexts[i])), "other-jobs-keep-due-time")
				}
			}
		}
	}
	vreach("end")
}

// VH_C16_rem: remove an id (present or not) from an arbitrary valid timeline.
func VH_C16_rem(n int) {
	c := vhNewCron(10)
	ids, _ := vhTimeline(c, n)
	ctx := core.NewContext("c16")
	id := vsymStrN("remid", 3)
	was := vhCount(c, id)
	found, err := c.Rem(ctx, id)
	vassert(err == nil, "rem-no-error")
	vassert(found == (was == 1), "rem-reports-presence")
	vassert(vhCount(c, id) == 0, "removed-job-absent")
	vassert(vhSorted(c), "timeline-sorted")
	vassert(vhUniqueIds(c), "at-most-one-entry-per-id")
	for _, o := range ids {
		if o != id {
			vassert(vhCount(c, o) == 1, "other-jobs-kept")
		}
	}
	vreach("end")
}

// VH_C16_limit: the capacity limit refuses a new id at the limit and leaves the timeline
// as it was; replacing an existing id at the limit is allowed.
func VH_C16_limit(n int) {
	c := vhNewCron(n)
	ids, _ := vhTimeline(c, n)
	ctx := core.NewContext("c16")
	id := vsymStrN("newid", 3)
	isNew := true
	for _, o := range ids {
		isNew = vand(isNew, id != o)
	}
	job := &CronJob{Id: id, Next: time.Unix(0, vsymInt64("newnext", vhBase, vhBase+1000000))}
	err := c.schedule(ctx, job, true)
	vassert((err != nil) == isNew, "limit-refuses-only-new-ids")
	vassert(int64(len(c.Timeline)) <= int64(n), "timeline-within-limit")
	vassert(vhSorted(c), "timeline-sorted")
	vreach("end")
}

// VH_C16_add_oneshot: Cron.Add with a "+<n>ns" one-shot schedule makes the job due at
// now + n.
func VH_C16_add_oneshot(n int) {
	c := vhNewCron(10)
	vhTimeline(c, n)
	ctx := core.NewContext("c16")
	d := int64(vsymInt("delay", 0, 900000))
	before := vgetNow()
	err := c.Add(ctx, "job", "+"+strconv.FormatInt(d, 10)+"ns", func(t time.Time) error { return nil })
	after := vgetNow()
	vassert(err == nil, "add-succeeds")
	for _, j := range c.Timeline {
		if j.Id == "job" {
			// due at (the instant Add read the clock) + delay
			vassert(!j.Next.Before(time.Unix(0, before+d)) && !j.Next.After(time.Unix(0, after+d)), "due-time-is-now-plus-delay")
			vassert(j.Once(), "one-shot")
		}
	}
	vassert(vhCount(c, "job") == 1, "scheduled-job-present-once")
	vreach("end")
}

// ---- firing loop ------------------------------------------------------------------
//
// Unit: Cron.Start/start (the select loop), run, resetTimer, command, Add, Rem. The
// engine models time.Timer: the timer channel becomes ready only when nothing else can
// run, at which point the clock jumps to (at least) its deadline.

type vhFire struct {
	id string
	at int64
}

// VH_C16_loop: two one-shot jobs with symbolic delays; optionally one is removed before
// it is due; then time passes. Each remaining job fires exactly once, not before its due
// time; a removed job never fires.
func VH_C16_loop(remove int) {
	vrealclock()
	c := vhNewCron(10)
	base := vgetNow()
	ctx := core.NewContext("c16")
	var fired []vhFire
	mk := func(id string) func(time.Time) error {
		return func(t time.Time) error {
			fired = append(fired, vhFire{id, vgetNow()})
			return nil
		}
	}
	c.Start(ctx)
	vquiesce() // the loop goroutine starts and waits
	// delays in milliseconds (1..900) so that the native replay can use the real clock
	dA := int64(vsymInt("dA", 1, 900)) * 1000000
	dB := int64(vsymInt("dB", 1, 900)) * 1000000
	vassert(c.Add(ctx, "A", "+"+strconv.FormatInt(dA, 10)+"ns", mk("A")) == nil, "add-succeeds")
	vassert(c.Add(ctx, "B", "+"+strconv.FormatInt(dB, 10)+"ns", mk("B")) == nil, "add-succeeds")
	// the due instants as the cron recorded them
	due := map[string]int64{}
	c.Lock()
	for _, j := range c.Timeline {
		due[j.Id] = j.Next.UnixNano()
	}
	c.Unlock()
	vassert(due["A"] >= base+dA && due["B"] >= base+dB, "due-time-is-now-plus-delay")
	if remove == 1 {
		found, err := c.Rem(ctx, "A")
		vassert(err == nil && found, "rem-finds-pending-job")
	}
	vquiesce()
	nA, nB := 0, 0
	const margin = int64(10 * 1000000)
	for _, f := range fired {
		if f.id == "A" {
			nA++
		} else {
			nB++
		}
		// first with a margin (such a witness replays natively whatever the scheduling
		// latency), then exactly
		vassert(f.at+margin >= due[f.id], "fires-no-earlier-than-due")
		vassert(f.at >= due[f.id], "fires-no-earlier-than-due")
	}
	if remove == 1 {
		vassert(nA == 0, "removed-job-never-fires")
	} else {
		vassert(nA == 1, "one-shot-fires-exactly-once")
	}
	vassert(nB == 1, "one-shot-fires-exactly-once")
	vassert(c.PendingCount() == 0, "no-entry-left-after-firing")
	c.Kill(ctx)
	vquiesce()
	vreach("end")
}


// ---- recurring jobs -----------------------------------------------------------------
//
// cronexpr.Parse / Expression.Next are engine intrinsics running the real library
// natively; for a symbolic instant Next is exact for the every-second schedule.

const vhEverySecond = "* * * * * * *"

// VH_C16_recurring: an every-second job on a cron with capacity 2. mode 0: nothing else;
// mode 1: the job's first run fills the cron up to its capacity with two far-away
// one-shots (re-scheduling a job that ran is not an addition and must not be refused);
// mode 2: the job removes itself while it runs (a removed job never fires again);
// mode 3: the job replaces itself (same id) with a far-away one-shot while it runs (the
// replacement must survive, the old schedule must not come back).
func VH_C16_recurring(mode int) {
	vrealclock()
	c := vhNewCron(2)
	ctx := core.NewContext("c16")
	c.Start(ctx)
	vquiesce()
	nop := func(t time.Time) error { return nil }
	var fired []int64
	n := 0
	rf := int64(0) // runs of the replacement (the engine's clock may jump an hour ahead; the real one does not)
	fn := func(t time.Time) error {
		n++
		fired = append(fired, vgetNow())
		if n == 1 {
			switch mode {
			case 1:
				vassert(c.Add(ctx, "F1", "+3600s", nop) == nil, "add-succeeds")
				vassert(c.Add(ctx, "F2", "+3600s", nop) == nil, "add-succeeds")
			case 2:
				c.Rem(ctx, "R")
			case 3:
				vassert(c.Add(ctx, "R", "+3600s", func(t time.Time) error { rf++; return nil }) == nil, "add-succeeds")
			}
		}
		if n == 2 {
			c.Kill(ctx)
		}
		return nil
	}
	// the clock reading at Add is arbitrary within a second
	vsetNow(vhBase + int64(vsymInt("phase", 0, 999999999)))
	vassert(c.Add(ctx, "R", vhEverySecond, fn) == nil, "add-succeeds")
	due := int64(0)
	c.Lock()
	for _, j := range c.Timeline {
		if j.Id == "R" {
			due = j.Next.UnixNano()
			vassert(!j.Once(), "recurring")
		}
	}
	c.Unlock()
	vquiesce()
	vquiesce()
	vassert(len(fired) >= 1, "recurring-job-fires-once-per-occurrence")
	const margin = int64(10 * 1000000)
	vassert(fired[0]+margin >= due, "fires-no-earlier-than-due")
	vassert(fired[0] >= due, "fires-no-earlier-than-due")
	const sec = int64(1000000000)
	switch mode {
	case 0, 1:
		vassert(n == 2, "recurring-job-fires-once-per-occurrence")
		// two firings belong to two different occurrences (seconds)
		vassert(fired[1]/sec > fired[0]/sec, "recurring-job-fires-once-per-occurrence")
		// and the job is pending again, once
		vassert(vhCount(c, "R") == 1, "recurring-job-pending-once-after-a-run")
	case 2:
		vassert(n == 1, "removed-job-never-fires")
		vassert(vhCount(c, "R") == 0, "removed-job-never-fires")
		c.Kill(ctx)
	case 3:
		vassert(n == 1, "replaced-job-never-fires")
		vassert(vhCount(c, "R")+rf == 1, "at-most-one-entry-per-id")
		for _, j := range c.Timeline {
			if j.Id == "R" {
				vassert(j.Once(), "replacement-survives-the-old-jobs-run")
			}
		}
		c.Kill(ctx)
	}
	vquiesce()
	vreach("end")
}

// VH_C16_suspend: a one-shot job is pending; then k suspend/resume/pause commands (local
// and through the broadcaster, every sequence), time passes, then everything is resumed.
// Suspending and pausing only delay: the job fires exactly once, not before it is due.
func VH_C16_suspend(k int) {
	vrealclock()
	vsetNow(vhBase)
	b := NewCronBroadcaster()
	pause := time.Duration(vsymInt("pause", 1, 200)) * time.Millisecond
	c, err := NewCron(b, pause, "verif", 10)
	vassume(err == nil)
	ctx := core.NewContext("c16")
	c.Start(ctx)
	vquiesce()
	n := 0
	at := int64(0)
	d := int64(vsymInt("d", 1, 300)) * 1000000
	vassert(c.Add(ctx, "A", "+"+strconv.FormatInt(d, 10)+"ns", func(t time.Time) error {
		n++
		at = vgetNow()
		return nil
	}) == nil, "add-succeeds")
	due := int64(0)
	c.Lock()
	for _, j := range c.Timeline {
		due = j.Next.UnixNano()
	}
	c.Unlock()
	bsusp := false
	for i := 0; i < k; i++ {
		switch vchoose(5) {
		case 0:
			c.Suspend(ctx)
		case 1:
			c.Resume(ctx)
		case 2:
			if !bsusp {
				b.Suspend()
				bsusp = true
			}
		case 3:
			if bsusp {
				b.Resume()
				bsusp = false
			}
		case 4:
			c.Pause(ctx)
		}
		vhSettle()
	}
	// nobody suspends any more
	if bsusp {
		b.Resume()
		vhSettle()
	}
	c.Resume(ctx)
	vquiesce()
	vassert(n == 1, "suspension-only-delays-firing")
	vassert(at >= due, "fires-no-earlier-than-due")
	vassert(c.PendingCount() == 0, "no-entry-left-after-firing")
	c.Kill(ctx)
	vquiesce()
	vreach("end")
}

// vhSettle lets the loop consume the command just sent (natively: a short real sleep;
// in the engine: run the other goroutines until they block, timers included).
func vhSettle() {
	if vsymbolic() {
		vquiesce()
		return
	}
	time.Sleep(60 * time.Millisecond)
}
