package service

// C18 — the service layer is a faithful rendering of the API (narrow: ProcessRequest).
//
// Unit: Service.ProcessRequest for the /api/loc/{facts,rules}/* cases, getMapParam /
// getBoolParam / GetStringParam, DWIMURI (concrete URIs). The decoded request map is the
// input: each parameter is present and well typed, missing, or of a wrong JSON kind (the
// kind is enumerated, the content symbolic). Two Systems sharing nothing: the request goes
// through the service on one, the corresponding direct System call is made on the other;
// error status and the resulting state must agree.
//
//verif:bounds one request per path on a location holding one fact and one rule; 8
// operations; each of their parameters perturbed to {missing, number, bool, map, string,
// array of strings}; URI spelled with and without the /api prefix and with a version
// prefix; ids symbolic (len<=4).

import (
	"github.com/Comcast/rulio/core"
	"github.com/Comcast/rulio/cron"
	. "github.com/Comcast/rulio/sys"
)

type vhNullCron struct{}

func (c *vhNullCron) ScheduleEvent(ctx *core.Context, work *cron.ScheduledEvent) error { return nil }
func (c *vhNullCron) Schedule(ctx *core.Context, work *cron.ScheduledWork) error       { return nil }
func (c *vhNullCron) Rem(ctx *core.Context, id string) (bool, error)                   { return false, nil }
func (c *vhNullCron) Persistent() bool                                                 { return true }

type vhOut struct{ writes int }

func (o *vhOut) Write(p []byte) (int, error) { o.writes++; return len(p), nil }

func vhSys(tag string) (*System, *core.Context) {
	ctx := core.NewContext("c18" + tag)
	conf := SystemConfig{Storage: "memory"}
	cont := SystemControl{LocationTTL: Forever, DefaultLocControl: &core.Control{MaxFacts: 1000}}
	sys, err := NewSystem(ctx, conf, cont, &vhNullCron{})
	vassume(err == nil)
	_, err = sys.AddFact(ctx, "loc", "f0", `{"a":"b"}`)
	vassume(err == nil)
	_, err = sys.AddRule(ctx, "loc", "r0", `{"when":{"pattern":{"a":"?x"}},"action":{"code":"1"}}`)
	vassume(err == nil)
	return sys, ctx
}

// vhBad returns a value of the wrong kind for a parameter (kind 1..5) — or the right one
// (kind 0, given by the caller).
func vhBad(kind int, tag string, typ int) (interface{}, bool) {
	switch kind {
	case 1:
		return nil, false // missing
	case 2:
		return vsymNum(tag+".n", 0, 3), true
	case 3:
		return vsymBool(tag + ".b"), true
	case 4:
		return map[string]interface{}{"k": vsymStrN(tag+".mv", 3)}, true
	case 5:
		if typ == vhBool {
			// the service lower-cases such strings: concrete spellings
			return []string{"true", "True", "no"}[vchoose(3)], true
		}
		return vsymStrN(tag+".s", 3), true
	case 6:
		return []interface{}{vsymStrN(tag+".e0", 2), vsymStrN(tag+".e1", 2)}, true
	}
	vassume(false)
	return nil, false
}

var vhURIs = []string{"/api/loc/", "/loc/", "/v1.0/api/loc/", "/v2/loc/"}

const (
	vhStr  = 0
	vhMap  = 1
	vhBool = 2
)

// acceptable: does a value of perturbation kind k satisfy a parameter of type t?
func vhAcceptable(t, k int) bool {
	switch t {
	case vhStr:
		return k == 5 || k == 6 // a string, or an array of strings (concatenated)
	case vhMap:
		return k == 4
	case vhBool:
		return k == 3 || k == 5 // bool, or a string ("true" means true)
	}
	return false
}

// VH_C18_request: op x which parameter x perturbation kind x URI spelling.
func VH_C18_request(op, which, kind, uriForm int) {
	sa, ca := vhSys("A")
	sb, cb := vhSys("B")
	svc := &Service{System: sa}
	id := vsymStrN("id", 4)
	vassume(id != "")
	vassume(!vhasPrefix(id, "!"))
	vassume(!vhasPrefix(id, "?"))
	factVal := vsymStrN("fact.v", 4)
	fact := map[string]interface{}{"a": factVal}
	pattern := map[string]interface{}{"a": "?x"}

	type param struct {
		name     string
		typ      int
		required bool
		val      interface{}
	}
	var path string
	var ps []param
	switch op {
	case 0:
		path = "facts/add"
		ps = []param{{"location", vhStr, true, "loc"}, {"fact", vhMap, true, fact}, {"id", vhStr, false, id}}
	case 1:
		path = "facts/rem"
		ps = []param{{"location", vhStr, true, "loc"}, {"id", vhStr, true, "f0"}}
	case 2:
		path = "facts/get"
		ps = []param{{"location", vhStr, true, "loc"}, {"id", vhStr, true, "f0"}}
	case 3:
		path = "facts/search"
		ps = []param{{"location", vhStr, true, "loc"}, {"pattern", vhMap, true, pattern}, {"inherited", vhBool, false, false}, {"take", vhBool, false, false}}
	case 4:
		path = "rules/rem"
		ps = []param{{"location", vhStr, true, "loc"}, {"id", vhStr, true, "r0"}}
	case 5:
		path = "rules/disable"
		ps = []param{{"location", vhStr, true, "loc"}, {"id", vhStr, true, "r0"}}
	case 6:
		path = "rules/list"
		ps = []param{{"location", vhStr, true, "loc"}, {"inherited", vhBool, false, false}}
	case 7:
		path = "no/such/operation"
		ps = []param{{"location", vhStr, true, "loc"}}
	case 8: // search-and-remove: a request built on top of another request
		path = "facts/take"
		ps = []param{{"location", vhStr, true, "loc"}, {"pattern", vhMap, true, pattern}}
	}
	vassume(which < len(ps))
	m := map[string]interface{}{"uri": vhURIs[uriForm] + path}
	wellTyped := true
	for i, p := range ps {
		if i == which && kind != 0 {
			v, present := vhBad(kind, p.name, p.typ)
			if present {
				m[p.name] = v
				if !vhAcceptable(p.typ, kind) {
					wellTyped = false
				} else {
					ps[i].val = v
				}
			} else if p.required {
				wellTyped = false
			} else {
				ps[i].val = nil
			}
			continue
		}
		m[p.name] = p.val
	}
	out := &vhOut{}
	_, err := svc.ProcessRequest(ca, m, out)
	if op == 7 {
		vassert(err != nil, "unknown-uri-is-an-error")
		vreach("end")
		return
	}
	if !wellTyped {
		vassert(err != nil, "missing-or-ill-typed-parameter-is-an-error")
		// and nothing happened: the pre-existing fact and rule are still there
		_, e1 := sa.GetFact(ca, "loc", "f0")
		_, e2 := sa.GetRule(ca, "loc", "r0")
		vassert(e1 == nil && e2 == nil, "refused-request-has-no-effect")
		vreach("end")
		return
	}
	if op == 8 {
		// well-typed take: the matching fact is gone afterwards
		if kind == 0 {
			vassert(err == nil, "well-typed-request-succeeds")
			_, e1 := sa.GetFact(ca, "loc", "f0")
			vassert(e1 != nil, "take-removes-what-it-returns")
		}
		vreach("end")
		return
	}
	// the same operation, directly, on the twin
	str := func(v interface{}) string {
		switch x := v.(type) {
		case string:
			return x
		case []interface{}:
			acc := ""
			for _, e := range x {
				acc += e.(string)
			}
			return acc
		}
		return ""
	}
	var derr error
	switch op {
	case 0:
		js, _ := core.Map(ps[1].val.(map[string]interface{})).JSON()
		_, derr = sb.AddFact(cb, str(ps[0].val), str(ps[2].val), js)
	case 1:
		_, derr = sb.RemFact(cb, str(ps[0].val), str(ps[1].val))
	case 2:
		_, derr = sb.GetFact(cb, str(ps[0].val), str(ps[1].val))
	case 3:
		_, derr = sb.SearchFacts(cb, str(ps[0].val), `{"a":"?x"}`, false)
		take := false
		switch tv := ps[3].val.(type) {
		case bool:
			take = tv
		case string:
			take = tv == "true" || tv == "True"
		}
		if take && derr == nil {
			// search with take=true also removes what it found (f0 is the one matching fact)
			sb.RemFact(cb, str(ps[0].val), "f0")
		}
	case 4:
		_, derr = sb.RemRule(cb, str(ps[0].val), str(ps[1].val))
	case 5:
		derr = sb.EnableRule(cb, str(ps[0].val), str(ps[1].val), false)
	case 6:
		_, derr = sb.ListRules(cb, str(ps[0].val), false)
	}
	vassert((err != nil) == (derr != nil), "same-error-status-as-direct-call")
	if err == nil {
		vassert(out.writes > 0, "success-renders-a-result")
	}
	// same resulting state: the probes agree on both systems
	for _, probe := range []string{"f0", str(ps[len(ps)-1].val)} {
		if probe == "" {
			continue
		}
		ja, ea := sa.GetFact(ca, "loc", probe)
		jb, eb := sb.GetFact(cb, "loc", probe)
		vassert((ea == nil) == (eb == nil), "same-state-as-direct-call")
		if ea == nil && eb == nil {
			vassert(vdeepEq(ja, jb), "same-state-as-direct-call")
		}
	}
	ra, ea := sa.RuleEnabled(ca, "loc", "r0")
	rb, eb := sb.RuleEnabled(cb, "loc", "r0")
	vassert((ea == nil) == (eb == nil) && ra == rb, "same-state-as-direct-call")
	vreach("end")
}

// VH_C18_uri: a request whose uri is missing or not a string is an error, not a crash.
func VH_C18_uri(kind int) {
	sa, ca := vhSys("A")
	svc := &Service{System: sa}
	m := map[string]interface{}{"location": "loc"}
	if kind != 7 {
		if v, present := vhBad(kind, "uri", vhStr); present {
			m["uri"] = v
		}
	} else {
		// an array of strings that spells a real operation when glued together
		// (the other string parameters accept that form; the uri does not)
		m["uri"] = [][]interface{}{
			{"/api/loc/admin/", "clear"},
			{"/api/loc/facts/", "rem"},
			{"/loc/admin/clear"},
		}[vchoose(3)]
		m["id"] = "f0"
	}
	out := &vhOut{}
	_, err := svc.ProcessRequest(ca, m, out)
	if kind != 5 {
		vassert(err != nil, "bad-uri-is-an-error")
	}
	if kind == 7 {
		js, gerr := sa.GetFact(ca, "loc", "f0")
		vassert(gerr == nil && js != "", "refused-request-has-no-effect")
	}
	vreach("end")
}

// VH_C18_param: a query-string or form parameter that is not one of the typed ones
// (fact, rule, pattern, query, event: JSON; limit: int) reaches the request map as
// exactly the string the client sent, whatever characters it holds — the same argument a
// JSON body or a direct System call would carry.
func VH_C18_param() {
	p := vsymStrN("param.name", 8)
	v := vsymStrN("param.value", 6)
	for _, typed := range []string{"fact", "rule", "pattern", "query", "event", "limit"} {
		vassume(p != typed)
	}
	x, err := parseParameter(p, v)
	vassert(err == nil, "string-parameter-accepted")
	s, is := x.(string)
	vassert(is, "string-parameter-stays-a-string")
	vassert(s == v, "string-parameter-unchanged")
	vreach("end")
}
