package service

// C13/C18 — sweep over the service's operations: for every URI of ProcessRequest's dispatch
// that the engine can execute, one parameter at a time is missing or of a wrong kind (number,
// boolean, map, array of strings) next to otherwise plausible parameters. The request returns
// (a result or an error): it never panics, and afterwards the location still answers.
// Left out: operations that stop, sleep, collect garbage, dump the heap, run scripts or reach
// the network, and facts/replace (it writes to ioutil.Discard, a global of a package the
// engine does not interpret).

var vhSweepURIs = []string{
	"/api/version", "/api/health", "/api/health/shallow",
	"/api/sys/control", "/api/sys/params", "/api/sys/cachedlocations", "/api/sys/loccontrol", "/api/sys/stats",
	"/api/sys/util/nowsecs", "/api/sys/util/match",
	"/api/sys/admin/timers/names", "/api/sys/admin/timers/get",
	"/api/loc/admin/size", "/api/loc/admin/stats", "/api/loc/admin/create", "/api/loc/admin/clear",
	"/api/loc/admin/updatedmem", "/api/loc/admin/delete",
	"/api/loc/events/ingest", "/api/loc/events/retry",
	"/api/loc/facts/add", "/api/loc/facts/rem", "/api/loc/facts/get", "/api/loc/facts/search",
	"/api/loc/facts/take", "/api/loc/facts/query",
	"/api/loc/rules/list", "/api/loc/rules/add", "/api/loc/rules/rem", "/api/loc/rules/disable",
	"/api/loc/rules/enable", "/api/loc/rules/enabled", "/api/loc/parents",
}

var vhSweepParams = []string{"location", "id", "fact", "rule", "pattern", "event", "query", "work",
	"inherited", "take", "set", "name", "limit", "control", "after", "code"}

func vhTry(f func()) (panicked bool) {
	defer func() {
		if r := recover(); r != nil {
			if _, isAssume := r.(vAssumeFailed); isAssume {
				panic(r)
			}
			panicked = true
		}
	}()
	f()
	return false
}

func VH_C18_sweep(u, p, kind int) {
	sa, ca := vhSys("A")
	svc := &Service{System: sa}
	m := map[string]interface{}{
		"uri":      vhSweepURIs[u],
		"location": "loc",
		"id":       "f0",
		"fact":     map[string]interface{}{"a": "c"},
		"rule":     map[string]interface{}{"when": map[string]interface{}{"pattern": map[string]interface{}{"b": "?y"}}, "action": map[string]interface{}{"code": "1"}},
		"pattern":  map[string]interface{}{"a": "?x"},
		"event":    map[string]interface{}{"zz": "1"},
		"query":    map[string]interface{}{"pattern": map[string]interface{}{"a": "?x"}},
		"name":     "x",
	}
	name := vhSweepParams[p]
	switch kind {
	case 1:
		delete(m, name)
	case 2:
		m[name] = vsymNum(name+".n", 0, 3)
	case 3:
		m[name] = vsymBool(name + ".b")
	case 4:
		m[name] = map[string]interface{}{"k": vsymStrN(name+".mv", 3)}
	case 5:
		// concrete spellings: several of these parameters are parsed as JSON or numbers
		m[name] = []string{"zz", "", "{", "-1", "true"}[vchoose(5)]
	case 6:
		m[name] = []interface{}{"z", "z"}
	}
	out := &vhOut{}
	panicked := vhTry(func() { svc.ProcessRequest(ca, m, out) })
	vassert(!panicked, "no-panic")
	// the system still serves requests
	_, err := sa.AddFact(ca, "loc2", "canary", `{"k":"v"}`)
	vassert(err == nil, "canary-after-op")
	vreach("end")
}
