#!/bin/bash
# runseed6.sh <SEED> [<CHECK-ID> ...] — run registered checks (quick tier) against the worktree /tmp/seed6/wt_<SEED>
# without touching /repo or /verif/evidence: the checks run from a mirror of /verif.
export GOFLAGS=-mod=mod GOPROXY=off GOSUMDB=off GOTOOLCHAIN=local
S=$1; shift; IDS=${@:-$S}
mkdir -p /tmp/seed6/vd
rsync -a --delete --exclude .git --exclude replays --exclude seeded /verif/ /tmp/seed6/vd/
for ID in $IDS; do
  timeout 3000 /verif/bin/gosym check -verif /tmp/seed6/vd -repo /tmp/seed6/wt_$S -tier ${TIER:-quick} $ID > /tmp/seed6/$S/check_output_$ID.txt 2>&1
  echo "$S vs $ID: exit=$? $(grep -c ^VIOLATION /tmp/seed6/$S/check_output_$ID.txt) violations; $(tail -1 /tmp/seed6/$S/check_output_$ID.txt | cut -c1-150)"
done
