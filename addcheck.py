#!/usr/bin/env python3
# addcheck.py <ID> "<level text>" "<level note>"  — register/refresh a check in MANIFEST.json
import json,sys
pid,text,note=sys.argv[1],sys.argv[2],sys.argv[3]
m=json.load(open('/verif/MANIFEST.json'))
c={"property_id":pid,"quick_cmd":"./vcheck %s quick"%pid,"thorough_cmd":"./vcheck %s thorough"%pid,"evidence_file":"/verif/evidence/%s.json"%pid,
  "replay_cmd_template":"./bin/gosym replay {path}","engine":"gosym",
  "level_claimed":{"category":"model_checking","text":text,"design_ref":"DESIGN.md §6 "+pid},
  "level_note":note,"technique":"bounded symbolic execution of the real code's SSA + SMT solving (z3), native replay of counterexamples"}
m["checks"]=[x for x in m["checks"] if x["property_id"]!=pid]+[c]
m["checks"].sort(key=lambda x:x["property_id"])
m["not_applicable"]=[n for n in m["not_applicable"] if n["property_id"]!=pid]
m["engines"][0]["serves_properties"]=sorted(set(m["engines"][0]["serves_properties"]+[pid]))
json.dump(m,open('/verif/MANIFEST.json','w'),indent=1)
