package main

// github.com/gorhill/cronexpr: the schedule parser and its Next() are run natively (the
// package builds its tables in an init and works through regexp and time.Time fields).
// Parse needs a concrete schedule string. Next(t) is exact for a concrete t; for a symbolic
// t it is exact for the every-second schedule ("* * * * * * *": the next whole second
// strictly after t) and opaque for any other expression.

import (
	"time"

	"github.com/gorhill/cronexpr"
)

const cronexprPath = "github.com/gorhill/cronexpr"

func init() {
	parse := func(ex *Exec, a []Value) (*Value, error) {
		s, ok := a[0].(string)
		if !ok {
			ex.inconclusive("cronexpr.Parse of a symbolic schedule")
		}
		if _, err := cronexpr.Parse(s); err != nil {
			return nil, err
		}
		cell := Value(Struct{s})
		return &cell, nil
	}
	reg(cronexprPath+".Parse", func(ex *Exec, fr *frame, a []Value) Value {
		p, err := parse(ex, a)
		if err != nil {
			return Tuple{(*Value)(nil), ex.newError("cronexpr: " + err.Error())}
		}
		return Tuple{p, Iface{}}
	})
	reg(cronexprPath+".MustParse", func(ex *Exec, fr *frame, a []Value) Value {
		p, err := parse(ex, a)
		if err != nil {
			panic(targetPanic{v: Iface{T: ex.w.runtimeErrorString, V: "cronexpr.MustParse: " + err.Error()}, pos: fr.posStr()})
		}
		return p
	})
	reg("(*"+cronexprPath+".Expression).Next", func(ex *Exec, fr *frame, a []Value) Value {
		p, ok := a[0].(*Value)
		if !ok || p == nil {
			ex.inconclusive("cronexpr receiver is not an engine expression")
		}
		st, ok := (*p).(Struct)
		if !ok {
			ex.inconclusive("cronexpr receiver is not an engine expression")
		}
		sched := st[0].(string)
		ns := timeNs(a[1])
		if c, ok := ns.(int64); ok {
			n := cronexpr.MustParse(sched).Next(time.Unix(0, c).UTC())
			if n.IsZero() {
				return Struct{int64(0), int64(0), (*Value)(nil)}
			}
			return ex.timeStruct(n.UnixNano())
		}
		if sched == "* * * * * * *" {
			t := intTerm(ns)
			sec := TInt(1000000000)
			return ex.timeStruct(simplify(TAdd(TSub(t, TMod(t, sec)), sec)))
		}
		return &Opaque{"cronexpr.Next of a symbolic instant for schedule " + sched}
	})
}

// reflect.ValueOf(x).Pointer() for maps, pointers, channels and functions: the identity of
// the object (a small integer handed out per object and path), which is all code can do
// with it: compare.
type reflectBox struct{ v Value }

func init() {
	reg("reflect.ValueOf", func(ex *Exec, fr *frame, a []Value) Value {
		v := a[0]
		if it, ok := v.(Iface); ok {
			v = it.V
		}
		return Struct{&reflectBox{v}}
	})
	reg("(reflect.Value).Pointer", func(ex *Exec, fr *frame, a []Value) Value {
		st, ok := a[0].(Struct)
		if !ok || len(st) != 1 {
			return &Opaque{"reflect.Value of unknown origin"}
		}
		b, ok := st[0].(*reflectBox)
		if !ok {
			return &Opaque{"reflect.Value of unknown origin"}
		}
		switch p := b.v.(type) {
		case *Map, *Value, *Chan, *Closure:
			if ex.ptrIds == nil {
				ex.ptrIds = map[interface{}]int64{}
			}
			id, have := ex.ptrIds[p]
			if !have {
				id = int64(0x1000 + 16*len(ex.ptrIds))
				ex.ptrIds[p] = id
			}
			if isNilRef(p) {
				return int64(0)
			}
			return id
		case nil:
			return int64(0)
		}
		return &Opaque{"reflect.Value.Pointer of a value that is no reference"}
	})
}

func isNilRef(p interface{}) bool {
	switch x := p.(type) {
	case *Map:
		return x == nil
	case *Value:
		return x == nil
	case *Chan:
		return x == nil
	case *Closure:
		return x == nil
	}
	return p == nil
}
