package main

// Terms: a small typed AST over Bool / Int / String with constant folding and an
// SMT-LIB 2.6 printer. Every symbolic scalar of the interpreted program is a *Term.

import (
	"fmt"
	"math"
	"sort"
	"strconv"
	"strings"
)

type Sort int

const (
	SBool Sort = iota
	SInt
	SString
)

func (s Sort) String() string {
	switch s {
	case SBool:
		return "Bool"
	case SInt:
		return "Int"
	}
	return "String"
}

type Term struct {
	Op   string // "const", "sym", or SMT operator
	Sort Sort
	Args []*Term
	B    bool
	I    int64
	S    string // string constant or symbol name
	// interval for Int terms (saturating); valid when HasIv
	Lo, Hi int64
	str    string
	syms   []string
	symsOK bool
}

const (
	ivMin = math.MinInt64
	ivMax = math.MaxInt64
)

var (
	TTrue  = &Term{Op: "const", Sort: SBool, B: true}
	TFalse = &Term{Op: "const", Sort: SBool, B: false}
)

func TBool(b bool) *Term {
	if b {
		return TTrue
	}
	return TFalse
}
func TInt(i int64) *Term      { return &Term{Op: "const", Sort: SInt, I: i, Lo: i, Hi: i} }
func TStr(s string) *Term     { return &Term{Op: "const", Sort: SString, S: s} }
func (t *Term) IsConst() bool { return t.Op == "const" }

func TSym(name string, s Sort) *Term {
	t := &Term{Op: "sym", Sort: s, S: name}
	if s == SInt {
		t.Lo, t.Hi = ivMin, ivMax
	}
	return t
}

func TSymIntRange(name string, lo, hi int64) *Term {
	return &Term{Op: "sym", Sort: SInt, S: name, Lo: lo, Hi: hi}
}

func satAdd(a, b int64) int64 {
	if a == ivMin || b == ivMin {
		if a == ivMax || b == ivMax {
			return 0
		}
		return ivMin
	}
	if a == ivMax || b == ivMax {
		return ivMax
	}
	c := a + b
	if (a > 0 && b > 0 && c < 0) || (a > 0 && b > 0 && c == ivMax) {
		return ivMax
	}
	if a < 0 && b < 0 && c >= 0 {
		return ivMin
	}
	return c
}

func satNeg(a int64) int64 {
	if a == ivMin {
		return ivMax
	}
	if a == ivMax {
		return ivMin
	}
	return -a
}

func satMul(a, b int64) int64 {
	if a == 0 || b == 0 {
		return 0
	}
	neg := (a < 0) != (b < 0)
	if a == ivMin || a == ivMax || b == ivMin || b == ivMax {
		if neg {
			return ivMin
		}
		return ivMax
	}
	c := a * b
	if c/b != a {
		if neg {
			return ivMin
		}
		return ivMax
	}
	return c
}

func min4(a, b, c, d int64) int64 {
	m := a
	for _, x := range []int64{b, c, d} {
		if x < m {
			m = x
		}
	}
	return m
}
func max4(a, b, c, d int64) int64 {
	m := a
	for _, x := range []int64{b, c, d} {
		if x > m {
			m = x
		}
	}
	return m
}

// hiKnown / loKnown: the interval bound is a real bound (saturated bounds of non-constant
// terms mean "unknown").
func (t *Term) hiKnown() bool { return t.IsConst() || t.Hi != ivMax }
func (t *Term) loKnown() bool { return t.IsConst() || t.Lo != ivMin }

func mk(op string, s Sort, args ...*Term) *Term {
	t := &Term{Op: op, Sort: s, Args: args}
	if s == SInt {
		t.Lo, t.Hi = ivMin, ivMax
	}
	return t
}

// ---- Bool ----

func TNot(a *Term) *Term {
	if a.IsConst() {
		return TBool(!a.B)
	}
	if a.Op == "not" {
		return a.Args[0]
	}
	return mk("not", SBool, a)
}

func TAnd(xs ...*Term) *Term {
	var out []*Term
	for _, x := range xs {
		if x.IsConst() {
			if !x.B {
				return TFalse
			}
			continue
		}
		if x.Op == "and" {
			out = append(out, x.Args...)
		} else {
			out = append(out, x)
		}
	}
	if len(out) == 0 {
		return TTrue
	}
	if len(out) == 1 {
		return out[0]
	}
	return mk("and", SBool, out...)
}

func TOr(xs ...*Term) *Term {
	var out []*Term
	for _, x := range xs {
		if x.IsConst() {
			if x.B {
				return TTrue
			}
			continue
		}
		if x.Op == "or" {
			out = append(out, x.Args...)
		} else {
			out = append(out, x)
		}
	}
	if len(out) == 0 {
		return TFalse
	}
	if len(out) == 1 {
		return out[0]
	}
	return mk("or", SBool, out...)
}

func TImplies(a, b *Term) *Term { return TOr(TNot(a), b) }

func TIte(c, a, b *Term) *Term {
	if c.IsConst() {
		if c.B {
			return a
		}
		return b
	}
	if a.Sort == SBool {
		return TOr(TAnd(c, a), TAnd(TNot(c), b))
	}
	if a.String() == b.String() {
		return a
	}
	t := mk("ite", a.Sort, c, a, b)
	if a.Sort == SInt {
		t.Lo, t.Hi = a.Lo, a.Hi
		if b.Lo < t.Lo {
			t.Lo = b.Lo
		}
		if b.Hi > t.Hi {
			t.Hi = b.Hi
		}
	}
	return t
}

func TEq(a, b *Term) *Term {
	if a.Sort != b.Sort {
		panic(fmt.Sprintf("TEq sort mismatch %v %v: %s %s", a.Sort, b.Sort, a, b))
	}
	if a.IsConst() && b.IsConst() {
		switch a.Sort {
		case SBool:
			return TBool(a.B == b.B)
		case SInt:
			return TBool(a.I == b.I)
		default:
			return TBool(a.S == b.S)
		}
	}
	if a == b || a.String() == b.String() {
		return TTrue
	}
	if a.Sort == SInt && ((a.hiKnown() && b.loKnown() && a.Hi < b.Lo) || (b.hiKnown() && a.loKnown() && b.Hi < a.Lo)) {
		return TFalse
	}
	if a.Sort == SString {
		if r := strEqSimplify(a, b); r != nil {
			return r
		}
	}
	if a.Sort == SBool {
		if a.IsConst() {
			if a.B {
				return b
			}
			return TNot(b)
		}
		if b.IsConst() {
			if b.B {
				return a
			}
			return TNot(a)
		}
	}
	return mk("=", SBool, a, b)
}

// ---- Int ----

func TAdd(a, b *Term) *Term {
	if a.IsConst() && b.IsConst() {
		return TInt(a.I + b.I)
	}
	if a.IsConst() && a.I == 0 {
		return b
	}
	if b.IsConst() && b.I == 0 {
		return a
	}
	// (x + c1) + c2 folding
	if b.IsConst() && a.Op == "+" && len(a.Args) == 2 && a.Args[1].IsConst() {
		return TAdd(a.Args[0], TInt(a.Args[1].I+b.I))
	}
	t := mk("+", SInt, a, b)
	t.Lo, t.Hi = satAdd(a.Lo, b.Lo), satAdd(a.Hi, b.Hi)
	return t
}

func TSub(a, b *Term) *Term {
	if a.IsConst() && b.IsConst() {
		return TInt(a.I - b.I)
	}
	if b.IsConst() {
		if b.I == 0 {
			return a
		}
		return TAdd(a, TInt(-b.I))
	}
	if a.String() == b.String() {
		return TInt(0)
	}
	t := mk("-", SInt, a, b)
	t.Lo, t.Hi = satAdd(a.Lo, satNeg(b.Hi)), satAdd(a.Hi, satNeg(b.Lo))
	return t
}

func TNeg(a *Term) *Term {
	if a.IsConst() {
		return TInt(-a.I)
	}
	t := mk("-", SInt, a)
	t.Lo, t.Hi = satNeg(a.Hi), satNeg(a.Lo)
	return t
}

func TMul(a, b *Term) *Term {
	if a.IsConst() && b.IsConst() {
		return TInt(a.I * b.I)
	}
	if a.IsConst() && a.I == 1 {
		return b
	}
	if b.IsConst() && b.I == 1 {
		return a
	}
	if (a.IsConst() && a.I == 0) || (b.IsConst() && b.I == 0) {
		return TInt(0)
	}
	t := mk("*", SInt, a, b)
	p1, p2, p3, p4 := satMul(a.Lo, b.Lo), satMul(a.Lo, b.Hi), satMul(a.Hi, b.Lo), satMul(a.Hi, b.Hi)
	t.Lo, t.Hi = min4(p1, p2, p3, p4), max4(p1, p2, p3, p4)
	return t
}

// TDivTrunc is Go's truncated division a / b (b != 0 assumed by caller).
func TDivTrunc(a, b *Term) *Term {
	if a.IsConst() && b.IsConst() && b.I != 0 {
		return TInt(a.I / b.I)
	}
	if b.IsConst() && b.I == 1 {
		return a
	}
	// (x * c) / c = x
	if b.IsConst() && a.Op == "*" && len(a.Args) == 2 {
		if a.Args[1].IsConst() && a.Args[1].I == b.I {
			return a.Args[0]
		}
		if a.Args[0].IsConst() && a.Args[0].I == b.I {
			return a.Args[1]
		}
	}
	// SMT div is floor for positive divisor (euclidean). Go truncates toward zero.
	if a.Lo >= 0 && b.Lo > 0 {
		t := mk("div", SInt, a, b)
		t.Lo, t.Hi = 0, a.Hi
		if b.IsConst() && a.Hi != ivMax {
			t.Hi = a.Hi / b.I
			t.Lo = a.Lo / b.I
		}
		return t
	}
	// general: ite(a >= 0, div(a,|b|)*sgn, -div(-a,|b|)*sgn)
	absb := TIte(TGe(b, TInt(0)), b, TNeg(b))
	q := TIte(TGe(a, TInt(0)), mk("div", SInt, a, absb), TNeg(mk("div", SInt, TNeg(a), absb)))
	r := TIte(TGe(b, TInt(0)), q, TNeg(q))
	m := a.Hi
	if satNeg(a.Lo) > m {
		m = satNeg(a.Lo)
	}
	r.Lo, r.Hi = satNeg(m), m
	return r
}

// TRemTrunc is Go's a % b (sign follows dividend).
func TRemTrunc(a, b *Term) *Term {
	if a.IsConst() && b.IsConst() && b.I != 0 {
		return TInt(a.I % b.I)
	}
	if a.Lo >= 0 && b.Lo > 0 {
		t := mk("mod", SInt, a, b)
		t.Lo = 0
		t.Hi = b.Hi
		if t.Hi != ivMax {
			t.Hi--
		}
		if a.Hi < t.Hi {
			t.Hi = a.Hi
		}
		return t
	}
	return TSub(a, TMul(TDivTrunc(a, b), b))
}

// TMod is SMT mod (result in [0,|b|)).
func TMod(a, b *Term) *Term {
	if a.IsConst() && b.IsConst() && b.I > 0 {
		m := a.I % b.I
		if m < 0 {
			m += b.I
		}
		return TInt(m)
	}
	t := mk("mod", SInt, a, b)
	t.Lo = 0
	if b.Hi != ivMax {
		t.Hi = b.Hi - 1
	}
	return t
}

func TLt(a, b *Term) *Term {
	if a.Sort == SString {
		if a.IsConst() && b.IsConst() {
			return TBool(a.S < b.S)
		}
		return mk("str.<", SBool, a, b)
	}
	if a.IsConst() && b.IsConst() {
		return TBool(a.I < b.I)
	}
	if a.hiKnown() && b.loKnown() && a.Hi < b.Lo {
		return TTrue
	}
	if a.loKnown() && b.hiKnown() && a.Lo >= b.Hi {
		return TFalse
	}
	return mk("<", SBool, a, b)
}
func TLe(a, b *Term) *Term {
	if a.Sort == SString {
		if a.IsConst() && b.IsConst() {
			return TBool(a.S <= b.S)
		}
		return mk("str.<=", SBool, a, b)
	}
	if a.IsConst() && b.IsConst() {
		return TBool(a.I <= b.I)
	}
	if a.hiKnown() && b.loKnown() && a.Hi <= b.Lo {
		return TTrue
	}
	if a.loKnown() && b.hiKnown() && a.Lo > b.Hi {
		return TFalse
	}
	return mk("<=", SBool, a, b)
}
func TGt(a, b *Term) *Term { return TLt(b, a) }
func TGe(a, b *Term) *Term { return TLe(b, a) }

// ---- String ----

func TConcat(a, b *Term) *Term {
	if a.IsConst() && b.IsConst() {
		return TStr(a.S + b.S)
	}
	if a.IsConst() && a.S == "" {
		return b
	}
	if b.IsConst() && b.S == "" {
		return a
	}
	var args []*Term
	if a.Op == "str.++" {
		args = append(args, a.Args...)
	} else {
		args = append(args, a)
	}
	if b.Op == "str.++" {
		args = append(args, b.Args...)
	} else {
		args = append(args, b)
	}
	// merge adjacent constants
	var out []*Term
	for _, x := range args {
		if n := len(out); n > 0 && out[n-1].IsConst() && x.IsConst() {
			out[n-1] = TStr(out[n-1].S + x.S)
		} else {
			out = append(out, x)
		}
	}
	return mk("str.++", SString, out...)
}

func TStrLen(a *Term) *Term {
	if a.IsConst() {
		return TInt(int64(len(a.S)))
	}
	if a.Op == "str.++" {
		var sum *Term = TInt(0)
		for _, x := range a.Args {
			sum = TAdd(sum, TStrLen(x))
		}
		return sum
	}
	t := mk("str.len", SInt, a)
	t.Lo, t.Hi = 0, 1<<20
	return t
}

func TPrefixOf(p, s *Term) *Term {
	if p.IsConst() && s.IsConst() {
		return TBool(strings.HasPrefix(s.S, p.S))
	}
	if p.IsConst() && p.S == "" {
		return TTrue
	}
	if s.Op == "str.++" && s.Args[0].IsConst() && p.IsConst() {
		c := s.Args[0].S
		if len(c) >= len(p.S) {
			return TBool(strings.HasPrefix(c, p.S))
		}
		if !strings.HasPrefix(p.S, c) {
			return TFalse
		}
	}
	return mk("str.prefixof", SBool, p, s)
}

func TSuffixOf(p, s *Term) *Term {
	if p.IsConst() && s.IsConst() {
		return TBool(strings.HasSuffix(s.S, p.S))
	}
	if p.IsConst() && p.S == "" {
		return TTrue
	}
	if s.Op == "str.++" && s.Args[len(s.Args)-1].IsConst() && p.IsConst() {
		c := s.Args[len(s.Args)-1].S
		if len(c) >= len(p.S) {
			return TBool(strings.HasSuffix(c, p.S))
		}
		if !strings.HasSuffix(p.S, c) {
			return TFalse
		}
	}
	return mk("str.suffixof", SBool, p, s)
}

func TContains(s, sub *Term) *Term {
	if sub.IsConst() && s.IsConst() {
		return TBool(strings.Contains(s.S, sub.S))
	}
	return mk("str.contains", SBool, s, sub)
}

func TIndexOf(s, sub *Term) *Term {
	if sub.IsConst() && s.IsConst() {
		return TInt(int64(strings.Index(s.S, sub.S)))
	}
	t := mk("str.indexof", SInt, s, sub, TInt(0))
	t.Lo, t.Hi = -1, 1<<20
	return t
}

func TSubstr(s, off, n *Term) *Term {
	if s.IsConst() && off.IsConst() && n.IsConst() {
		o, l := off.I, n.I
		if o < 0 || o > int64(len(s.S)) || l <= 0 {
			return TStr("")
		}
		e := o + l
		if e > int64(len(s.S)) {
			e = int64(len(s.S))
		}
		return TStr(s.S[o:e])
	}
	return mk("str.substr", SString, s, off, n)
}

func TStrAt(s, i *Term) *Term { return TSubstr(s, i, TInt(1)) }

func TToCode(s *Term) *Term {
	if s.IsConst() {
		if len(s.S) == 1 {
			return TInt(int64(s.S[0]))
		}
		return TInt(-1)
	}
	t := mk("str.to_code", SInt, s)
	t.Lo, t.Hi = -1, 255
	return t
}

func TFromCode(i *Term) *Term {
	if i.IsConst() && i.I >= 0 && i.I < 128 {
		return TStr(string(rune(i.I)))
	}
	return mk("str.from_code", SString, i)
}

func TFromInt(i *Term) *Term {
	// decimal rendering of a (possibly negative) integer; printed as an ite over
	// str.from_int, which yields "" for negatives
	if i.IsConst() {
		return TStr(strconv.FormatInt(i.I, 10))
	}
	return mk("fmtint", SString, i)
}

// ---- printing ----

func smtString(s string) string {
	var b strings.Builder
	b.WriteByte('"')
	for _, r := range s {
		switch {
		case r == '"':
			b.WriteString(`""`)
		case r >= 32 && r < 127 && r != '\\':
			b.WriteRune(r)
		default:
			fmt.Fprintf(&b, "\\u{%x}", r)
		}
	}
	b.WriteByte('"')
	return b.String()
}

func smtSym(name string) string {
	return "|" + strings.NewReplacer("|", "_", "\\", "_").Replace(name) + "|"
}

func (t *Term) String() string {
	if t.str != "" {
		return t.str
	}
	var s string
	switch t.Op {
	case "const":
		switch t.Sort {
		case SBool:
			if t.B {
				s = "true"
			} else {
				s = "false"
			}
		case SInt:
			if t.I < 0 {
				if t.I == math.MinInt64 {
					s = "(- 9223372036854775808)"
				} else {
					s = "(- " + strconv.FormatInt(-t.I, 10) + ")"
				}
			} else {
				s = strconv.FormatInt(t.I, 10)
			}
		default:
			s = smtString(t.S)
		}
	case "sym":
		s = smtSym(t.S)
	case "fmtint":
		a := t.Args[0].String()
		if t.Args[0].Lo >= 0 {
			s = "(str.from_int " + a + ")"
		} else {
			s = "(ite (<= 0 " + a + ") (str.from_int " + a + ") (str.++ \"-\" (str.from_int (- " + a + "))))"
		}
	default:
		var b strings.Builder
		b.WriteByte('(')
		b.WriteString(t.Op)
		for _, a := range t.Args {
			b.WriteByte(' ')
			b.WriteString(a.String())
		}
		b.WriteByte(')')
		s = b.String()
	}
	t.str = s
	return s
}

// Syms collects symbol terms under t.
func (t *Term) Syms(acc map[string]*Term) {
	if t.Op == "sym" {
		acc[t.S] = t
		return
	}
	for _, a := range t.Args {
		a.Syms(acc)
	}
}

func sortedSymNames(m map[string]*Term) []string {
	var ns []string
	for n := range m {
		ns = append(ns, n)
	}
	sort.Strings(ns)
	return ns
}

// strParts splits a string term into a constant prefix and the remaining parts.
func strParts(t *Term) (string, []*Term) {
	switch {
	case t.IsConst():
		return t.S, nil
	case t.Op == "str.++":
		if t.Args[0].IsConst() {
			return t.Args[0].S, t.Args[1:]
		}
		return "", t.Args
	}
	return "", []*Term{t}
}

func joinParts(prefix string, rest []*Term) *Term {
	acc := TStr(prefix)
	for _, r := range rest {
		acc = TConcat(acc, r)
	}
	return acc
}

// strEqSimplify rewrites equalities between concatenations with constant prefixes and
// between decimal renderings (injective); nil if nothing applies.
func strEqSimplify(a, b *Term) *Term {
	if a.Op == "fmtint" && b.Op == "fmtint" {
		return TEq(a.Args[0], b.Args[0])
	}
	if a.Op == "fmtint" && b.IsConst() {
		a, b = b, a
	}
	if b.Op == "fmtint" && a.IsConst() {
		n, err := strconv.ParseInt(a.S, 10, 64)
		if err != nil || strconv.FormatInt(n, 10) != a.S {
			return TFalse
		}
		return TEq(b.Args[0], TInt(n))
	}
	pa, ra := strParts(a)
	pb, rb := strParts(b)
	if pa == "" && pb == "" {
		return nil
	}
	n := 0
	for n < len(pa) && n < len(pb) && pa[n] == pb[n] {
		n++
	}
	if n < len(pa) && n < len(pb) {
		return TFalse // constant prefixes diverge
	}
	if n == 0 {
		return nil
	}
	if len(ra) == 0 && len(rb) == 0 {
		return TBool(pa == pb)
	}
	na, nb := joinParts(pa[n:], ra), joinParts(pb[n:], rb)
	return TEq(na, nb)
}

// SymNames returns the (cached, sorted) names of the symbols under t.
func (t *Term) SymNames() []string {
	if t.symsOK {
		return t.syms
	}
	m := map[string]*Term{}
	t.Syms(m)
	t.syms = sortedSymNames(m)
	t.symsOK = true
	return t.syms
}
