package main

import (
	"fmt"
	"go/types"
	"os"
	"path/filepath"
	"sort"
	"strings"
	"sync"
	"sync/atomic"
	"time"

	"golang.org/x/tools/go/packages"
	"golang.org/x/tools/go/ssa"
	"golang.org/x/tools/go/ssa/ssautil"
)

type Config struct {
	MaxSteps              int64
	MaxLoop               int
	MaxDepth              int
	MaxPaths              int
	JobTimeout            time.Duration
	PermuteMaps           bool
	permuteSet            map[string]bool
	Concurrent            bool
	Preempt               int
	StrMaxLen             int
	SolverTimeoutMs       int
	StopAtViolation       bool
	MaxViolationsPerLabel int
	Solver                string
	StrOrder              string // "rank" (default: abstract total order) or "lex" (str.<)
}

func defaultConfig() *Config {
	return &Config{MaxSteps: 3_000_000, MaxLoop: 2000, MaxDepth: 200, MaxPaths: 200_000, JobTimeout: 10 * time.Minute,
		StrMaxLen: 12, SolverTimeoutMs: 20_000, MaxViolationsPerLabel: 2, Preempt: 2, Solver: "z3", permuteSet: map[string]bool{}}
}

// Program is the loaded SSA program shared (read-only) by all workers.
type Program struct {
	prog               *ssa.Program
	pkgs               map[string]*ssa.Package // by import path
	runtimeErrorString types.Type
	errorsErrorString  types.Type
	initOrder          []*ssa.Package
	mu                 sync.Mutex
	fnsSeen            map[string]bool
	stubsSeen          map[string]int
	opaqueSeen         map[string]int
	loadTime           time.Duration
	fnInfos            sync.Map
}

const rulioPath = "github.com/Comcast/rulio"

var interpretPrefixes = []string{
	rulioPath + "/",
	"github.com/Comcast/sheens/match",
	"github.com/gorhill/cronexpr",
	"github.com/hashicorp/golang-lru",
}

var interpretStd = map[string]bool{
	"errors": true, "sort": true, "strings": true, "unicode/utf8": true, "unicode": true, "bytes": true,
	"container/list": true, "container/heap": true, "slices": true, "maps": true, "cmp": true, "math/bits": true,
	"internal/stringslite": true, "internal/bytealg": true, "internal/itoa": true,
}

// LoadProgram loads the rulio packages (with harness overlay files) and builds SSA.
func LoadProgram(repo string, pkgDirs []string, overlay map[string][]byte, tags string) (*Program, error) {
	t0 := time.Now()
	cfg := &packages.Config{
		Mode: packages.NeedName | packages.NeedFiles | packages.NeedCompiledGoFiles | packages.NeedImports | packages.NeedDeps |
			packages.NeedTypes | packages.NeedSyntax | packages.NeedTypesInfo | packages.NeedTypesSizes | packages.NeedModule,
		Dir:     repo,
		Overlay: overlay,
		Env:     append(os.Environ(), "GOFLAGS=-mod=mod", "GOPROXY=off", "GOSUMDB=off", "GOTOOLCHAIN=local"),
	}
	if tags != "" {
		cfg.BuildFlags = []string{"-tags=" + tags}
	}
	var patterns []string
	for _, d := range pkgDirs {
		patterns = append(patterns, "./"+d)
	}
	initial, err := packages.Load(cfg, patterns...)
	if err != nil {
		return nil, err
	}
	var errs []string
	packages.Visit(initial, nil, func(p *packages.Package) {
		for _, e := range p.Errors {
			if strings.HasPrefix(p.PkgPath, rulioPath) {
				errs = append(errs, e.Error())
			}
		}
	})
	if len(errs) > 0 {
		return nil, fmt.Errorf("load errors (harness does not compile against this tree?):\n%s", strings.Join(errs, "\n"))
	}
	prog, _ := ssautil.AllPackages(initial, ssa.InstantiateGenerics|ssa.SanityCheckFunctions&0)
	prog.Build()
	p := &Program{prog: prog, pkgs: map[string]*ssa.Package{}, fnsSeen: map[string]bool{}, stubsSeen: map[string]int{}, opaqueSeen: map[string]int{}}
	for _, sp := range prog.AllPackages() {
		p.pkgs[sp.Pkg.Path()] = sp
	}
	rt := p.pkgs["runtime"]
	if rt == nil {
		return nil, fmt.Errorf("runtime package not loaded")
	}
	p.runtimeErrorString = rt.Type("errorString").Object().Type()
	if ep := p.pkgs["errors"]; ep != nil {
		p.errorsErrorString = ep.Type("errorString").Object().Type()
	}
	p.loadTime = time.Since(t0)
	return p, nil
}

type Worker struct {
	*Program
	id     int
	cfg    *Config
	solver *Solver
	intr   map[string]intrinsicFn
	qcache map[string]qval
}

func NewWorker(p *Program, id int, cfg *Config) (*Worker, error) {
	s, err := NewSolver(cfg.Solver, cfg.SolverTimeoutMs)
	if err != nil {
		return nil, err
	}
	w := &Worker{Program: p, id: id, cfg: cfg, solver: s, intr: intrinsics, qcache: map[string]qval{}}
	return w, nil
}

func (w *Worker) interpretable(fn *ssa.Function) bool {
	path := pkgPathOf(fn)
	if path == "" {
		return true // synthetic wrappers, bound methods
	}
	if interpretStd[path] {
		return true
	}
	if path == rulioPath {
		return true
	}
	for _, p := range interpretPrefixes {
		if strings.HasPrefix(path, p) {
			return true
		}
	}
	return false
}

type fnInfo struct {
	name       string
	intr       intrinsicFn
	interp     bool
	generic    bool
	isPkgInit  bool
	initWanted bool
	idx        map[ssa.Value]int
	n          int
	noted      int32
	stubHits   int64
	opaqueHits int64
}

// fnInfoOf caches everything the interpreter needs to know about a function.
func (w *Worker) fnInfoOf(fn *ssa.Function) *fnInfo {
	if v, ok := w.fnInfos.Load(fn); ok {
		return v.(*fnInfo)
	}
	info := &fnInfo{name: fn.String()}
	if fn.Parent() == nil {
		info.intr = w.intr[info.name]
	}
	info.interp = w.interpretable(fn)
	info.generic = fn.TypeParams().Len() > 0 && len(fn.TypeArgs()) == 0
	if fn.Name() == "init" && fn.Pkg != nil && fn.Parent() == nil && fn.Signature.Recv() == nil {
		info.isPkgInit = true
		info.initWanted = initSet[fn.Pkg.Pkg.Path()]
	}
	info.idx = map[ssa.Value]int{}
	add := func(v ssa.Value) {
		if _, ok := info.idx[v]; !ok {
			info.idx[v] = info.n
			info.n++
		}
	}
	for _, p := range fn.Params {
		add(p)
	}
	for _, fv := range fn.FreeVars {
		add(fv)
	}
	for _, l := range fn.Locals {
		add(l)
	}
	for _, b := range fn.Blocks {
		for _, in := range b.Instrs {
			if v, ok := in.(ssa.Value); ok {
				add(v)
			}
		}
	}
	v, _ := w.fnInfos.LoadOrStore(fn, info)
	return v.(*fnInfo)
}

func (w *Worker) noteFn(info *fnInfo) {
	if atomic.LoadInt32(&info.noted) == 0 {
		atomic.StoreInt32(&info.noted, 1)
	}
}

func (w *Worker) noteStub(info *fnInfo)   { atomic.AddInt64(&info.stubHits, 1) }
func (w *Worker) noteOpaque(info *fnInfo) { atomic.AddInt64(&info.opaqueHits, 1) }

// collectStats folds the per-function counters into the report maps.
func (p *Program) collectStats() {
	p.mu.Lock()
	defer p.mu.Unlock()
	p.fnInfos.Range(func(k, v interface{}) bool {
		info := v.(*fnInfo)
		fn := k.(*ssa.Function)
		if info.noted != 0 && (fn.Pkg != nil || fn.Parent() != nil) {
			p.fnsSeen[info.name] = true
		}
		if info.stubHits > 0 {
			p.stubsSeen[info.name] = int(info.stubHits)
		}
		if info.opaqueHits > 0 {
			p.opaqueSeen[info.name] = int(info.opaqueHits)
		}
		return true
	})
}

func (p *Program) encodedFunctions(prefixes ...string) []string {
	p.collectStats()
	p.mu.Lock()
	defer p.mu.Unlock()
	var out []string
	for n := range p.fnsSeen {
		out = append(out, n)
	}
	sort.Strings(out)
	return out
}

func (w *Worker) findHarness(name string) *ssa.Function {
	// name: "<pkgdir>.<Func>" e.g. core.VH_x
	i := strings.LastIndex(name, ".")
	if i < 0 {
		return nil
	}
	pkg := w.pkgs[rulioPath+"/"+name[:i]]
	if pkg == nil {
		return nil
	}
	return pkg.Func(name[i+1:])
}

// runInits executes the package initialisers of the interpreted packages so that
// package-level variables carry the values the current source gives them.
func (w *Worker) runInits(ex *Exec) {
	for _, path := range initPackages {
		pkg := w.pkgs[path]
		if pkg == nil {
			continue
		}
		if fn := pkg.Func("init"); fn != nil {
			ex.callInit(fn)
		}
	}
}

var initPackages = []string{
	"github.com/Comcast/sheens/match",
	rulioPath + "/core",
	rulioPath + "/cron",
	rulioPath + "/sys",
	rulioPath + "/service",
}

var initSet = func() map[string]bool {
	m := map[string]bool{}
	for _, p := range initPackages {
		m[p] = true
	}
	return m
}()

func (ex *Exec) callInit(fn *ssa.Function) {
	ex.inInit = true
	defer func() { ex.inInit = false }()
	ex.callSSA(nil, 0, fn, nil, nil)
}

func readOverlayDir(dir, repo string) (map[string][]byte, error) {
	// dir/<pkg>/*.go  ->  repo/<pkg>/zz_verif_<name>.go
	ov := map[string][]byte{}
	entries, err := os.ReadDir(dir)
	if err != nil {
		return nil, err
	}
	for _, e := range entries {
		if !e.IsDir() {
			continue
		}
		files, _ := filepath.Glob(filepath.Join(dir, e.Name(), "*.go"))
		for _, f := range files {
			b, err := os.ReadFile(f)
			if err != nil {
				return nil, err
			}
			ov[filepath.Join(repo, e.Name(), "zz_verif_"+filepath.Base(f))] = b
		}
	}
	return ov, nil
}
