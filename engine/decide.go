package main

// Path exploration: re-executing DFS over a decision log, path conditions, solver
// queries, assertions.

import (
	"fmt"
	"go/types"
	"sort"
	"strings"
	"time"

	"golang.org/x/tools/go/ssa"
)

type Decision struct {
	Kind   string
	N      int
	Choice int
	Alts   []int
}

type Violation struct {
	Harness string                 `json:"harness"`
	Params  []int64                `json:"params"`
	Label   string                 `json:"label"`
	Kind    string                 `json:"kind"` // assert | panic | deadlock | depth-cap | loop-cap | race
	Msg     string                 `json:"msg,omitempty"`
	Inputs  map[string]interface{} `json:"inputs"`
	Choices []int64                `json:"choices"`
	Sched   []int                  `json:"schedule,omitempty"`
	// filled by the replay stage
	Reproduced bool   `json:"reproduced"`
	ReplayPath string `json:"replay_path,omitempty"`
	ReplayOut  string `json:"replay_out,omitempty"`
}

type JobSpec struct {
	Harness string  `json:"harness"` // "core.VH_C05_map"
	Params  []int64 `json:"params"`
	Cfg     string  `json:"cfg,omitempty"`
}

type JobResult struct {
	Spec            JobSpec
	Paths           int
	PathsDone       int // reached harness end
	Infeasible      int
	Decisions       int
	Steps           int64
	AssertChecked   map[string]int // label -> queries discharged unsat (or trivially true)
	AssertTrivial   map[string]int
	Reached         map[string]int
	Violations      []*Violation
	ViolationCount  map[string]int
	Inconclusive    map[string]int // reason -> count
	UnknownBranches int
	ModelHits       int
	CacheHits       int
	Samples         []map[string]interface{}
	Wall            time.Duration
	CapHit          bool
}

type qkey struct {
	h1, h2 uint64
	extra  string
}

type qval struct {
	r     SatResult
	model map[string]interface{}
}

type jobRun struct {
	spec   JobSpec
	log    []Decision
	res    *JobResult
	qcache map[qkey]qval
}

type Exec struct {
	w            *Worker
	job          *jobRun
	globals      map[*ssa.Global]*Value
	pc           []*Term
	pcSet        map[string]bool
	pos          int
	steps        int64
	overflowSeen int
	aborting     bool
	symMap       map[string]*Term
	choices      []int64
	sched        []int
	// goroutines
	cur   *Goroutine
	gs    []*Goroutine
	nchan int
	// clock: lower bound for the next reading
	clock         Value
	nclock        int
	locks         map[*Value]*lockState
	wgs           map[*Value]*wgState
	onces         map[*Value]bool
	atomics       map[*Value]Value
	ghost         map[string]Value
	uuidCount     int
	ptrIds        map[interface{}]int64
	preempts      int
	race          *raceState
	endMsg        string
	killing       bool
	skipIntrinsic *ssa.Function
	ottoSlowNs    Value
	ranks         map[string]*rankEntry
	rankOrder     []string
	eqConst       map[string]*Term
	h1, h2        uint64
	model         map[string]interface{} // satisfies pc when modelOK
	modelOK       bool
	side          []*Term
	inInit        bool
	timers        []*Chan
}

func (ex *Exec) global(g *ssa.Global) *Value {
	if r, ok := ex.globals[g]; ok {
		return r
	}
	cell := zero(deref(g.Type()))
	p := &cell
	ex.globals[g] = p
	return p
}

func (ex *Exec) addPC(t *Term) {
	if t.IsConst() {
		if !t.B {
			panic(pathEnd{kind: "infeasible"})
		}
		return
	}
	s := t.String()
	if ex.pcSet[s] {
		return
	}
	ex.pc = append(ex.pc, t)
	ex.pcSet[s] = true
	for i := 0; i < len(s); i++ {
		ex.h1 = (ex.h1 ^ uint64(s[i])) * 1099511628211
		ex.h2 = (ex.h2*31 + uint64(s[i])) ^ (ex.h2 >> 29)
	}
	ex.h1 = (ex.h1 ^ 0xff) * 1099511628211
	ex.h2 = ex.h2*131 + 7
	if ex.modelOK {
		if v, ok := evalBool(t, ex.model); !ok || !v {
			ex.modelOK = false
		}
	}
	if t.Op == "and" {
		for _, a := range t.Args {
			ex.pcSet[a.String()] = true
			ex.noteEq(a)
		}
	}
	ex.noteEq(t)
}

// noteEq records (= term const) facts of the path condition so that later uses of the
// term compute with the constant.
func (ex *Exec) noteEq(t *Term) {
	if t.Op != "=" || len(t.Args) != 2 {
		return
	}
	a, b := t.Args[0], t.Args[1]
	if a.IsConst() && !b.IsConst() {
		a, b = b, a
	}
	if b.IsConst() && !a.IsConst() {
		if ex.eqConst == nil {
			ex.eqConst = map[string]*Term{}
		}
		ex.eqConst[a.String()] = b
	}
}

// resolve replaces a symbolic scalar by its constant if the path condition fixes it.
func (ex *Exec) resolve(v Value) Value {
	t, ok := v.(*Term)
	if !ok || ex.eqConst == nil {
		return v
	}
	if c, ok := ex.eqConst[t.String()]; ok {
		return c
	}
	return v
}

func (ex *Exec) check(extra *Term) SatResult {
	r, _ := ex.query(extra, false)
	return r
}

// query decides pc ∧ extra. Constraint independence: only the conjuncts of the path
// condition that (transitively) share symbols with `extra` can influence the answer —
// the rest is satisfiable on its own because the path condition is — so the solver gets
// that slice, and the result is cached per worker under the slice's text (re-execution
// and sibling paths repeat most slices verbatim). A model for replay needs every
// symbol, so sat answers that must carry a model are re-asked with the whole pc.
func (ex *Exec) query(extra *Term, wantModel bool) (SatResult, map[string]interface{}) {
	if extra == nil {
		extra = TTrue
	}
	if extra.IsConst() && !extra.B {
		return Unsat, nil
	}
	w := ex.w
	slice := ex.relevant(extra)
	parts := make([]string, 0, len(slice)+1)
	for _, c := range slice {
		parts = append(parts, c.String())
	}
	sort.Strings(parts)
	key := strings.Join(parts, "\n") + "\n|" + extra.String()
	v, hit := w.qcache[key]
	if hit {
		ex.job.res.CacheHits++
	} else {
		conjs := slice
		if !extra.IsConst() {
			conjs = append(append([]*Term{}, slice...), extra)
		}
		if len(conjs) == 0 {
			v = qval{r: Sat}
		} else {
			r, _ := w.solver.CheckSet(conjs, nil)
			v = qval{r: r}
		}
		if len(w.qcache) > 40000 {
			w.qcache = map[string]qval{} // bound the cache's memory
		}
		w.qcache[key] = v
	}
	if v.r != Sat || !wantModel {
		return v.r, nil
	}
	// full model
	fk := qkey{h1: ex.h1, h2: ex.h2, extra: extra.String()}
	if fv, ok := ex.job.qcache[fk]; ok {
		return fv.r, fv.model
	}
	conjs := append([]*Term{}, ex.pc...)
	if !extra.IsConst() {
		conjs = append(conjs, extra)
	}
	r, m := w.solver.CheckSet(conjs, ex.symMap)
	if r == Sat && m == nil {
		m = map[string]interface{}{}
	}
	ex.job.qcache[fk] = qval{r, m}
	return r, m
}

// relevant returns the conjuncts of the path condition transitively sharing symbols
// with t.
func (ex *Exec) relevant(t *Term) []*Term {
	syms := map[string]bool{}
	for _, n := range t.SymNames() {
		syms[n] = true
	}
	if len(syms) == 0 {
		return nil
	}
	used := make([]bool, len(ex.pc))
	for changed := true; changed; {
		changed = false
		for i, c := range ex.pc {
			if used[i] {
				continue
			}
			hit := false
			for _, n := range c.SymNames() {
				if syms[n] {
					hit = true
					break
				}
			}
			if hit {
				used[i] = true
				changed = true
				for _, n := range c.SymNames() {
					syms[n] = true
				}
			}
		}
	}
	var out []*Term
	for i, c := range ex.pc {
		if used[i] {
			out = append(out, c)
		}
	}
	return out
}

func (ex *Exec) known(c *Term) (val, ok bool) {
	if c.IsConst() {
		return c.B, true
	}
	if ex.pcSet[c.String()] {
		return true, true
	}
	if ex.pcSet[TNot(c).String()] {
		return false, true
	}
	return false, false
}

func (ex *Exec) branch(c *Term) bool {
	if v, ok := ex.known(c); ok {
		return v
	}
	return ex.decide("if", []*Term{c, TNot(c)}) == 0
}

// decide picks one of the (exhaustive) guarded options. New decisions are appended to
// the log with their feasible alternatives; logged decisions are replayed.
func (ex *Exec) decide(kind string, guards []*Term) int {
	jr := ex.job
	if ex.pos < len(jr.log) {
		d := jr.log[ex.pos]
		if d.Kind != kind || d.N != len(guards) {
			panic(pathEnd{kind: "engine-error", msg: fmt.Sprintf("non-deterministic replay: decision %d was %s/%d, now %s/%d", ex.pos, d.Kind, d.N, kind, len(guards))})
		}
		ex.pos++
		ex.addPC(guards[d.Choice])
		return d.Choice
	}
	var feas []int
	for i, g := range guards {
		if g.IsConst() {
			if g.B {
				feas = append(feas, i)
			}
			continue
		}
		if v, ok := ex.known(g); ok {
			if v {
				feas = append(feas, i)
			}
			continue
		}
		if i == len(guards)-1 && len(feas) == 0 {
			feas = append(feas, i) // exhaustive guards, pc satisfiable
			continue
		}
		if ex.modelOK {
			if v, ok := evalBool(g, ex.model); ok && v {
				feas = append(feas, i)
				jr.res.ModelHits++
				continue
			}
		}
		r, model := ex.query(g, false)
		switch r {
		case Sat:
			feas = append(feas, i)
			if len(feas) == 1 && model != nil {
				// first feasible option is taken next: its model stays valid
				ex.model, ex.modelOK = model, true
			}
		case Unknown:
			jr.res.UnknownBranches++
			feas = append(feas, i)
		}
	}
	if len(feas) == 0 {
		panic(pathEnd{kind: "infeasible"})
	}
	d := Decision{Kind: kind, N: len(guards), Choice: feas[0], Alts: feas[1:]}
	jr.log = append(jr.log, d)
	jr.res.Decisions++
	ex.pos++
	ex.addPC(guards[d.Choice])
	return d.Choice
}

// choose is an unconstrained n-way decision (vchoose, scheduler, map order).
func (ex *Exec) choose(kind string, n int) int {
	guards := make([]*Term, n)
	for i := range guards {
		guards[i] = TTrue
	}
	return ex.decide(kind, guards)
}

// ---- symbols ----

var printableRe = &Term{Op: "raw", str: `(re.* (re.range " " "~"))`}

func (ex *Exec) symString(name string, maxLen int) *Term {
	if t, ok := ex.symMap[name]; ok {
		return t
	}
	t := TSym(name, SString)
	ex.symMap[name] = t
	ex.model[name] = ""
	if maxLen <= 0 {
		maxLen = ex.w.cfg.StrMaxLen
	}
	// the printable-ASCII side constraint is asserted only in assertion and model
	// queries (it is expensive); feasibility queries over-approximate without it.
	ex.side = append(ex.side, mk("str.in_re", SBool, t, printableRe))
	ex.addPC(mk("<=", SBool, mk("str.len", SInt, t), TInt(int64(maxLen))))
	return t
}

func (ex *Exec) symInt(name string, lo, hi int64) *Term {
	if t, ok := ex.symMap[name]; ok {
		return t
	}
	t := TSymIntRange(name, lo, hi)
	ex.symMap[name] = t
	if lo <= 0 && 0 <= hi {
		ex.model[name] = int64(0)
	} else {
		ex.model[name] = lo
	}
	ex.addPC(mk("<=", SBool, TInt(lo), t))
	ex.addPC(mk("<=", SBool, t, TInt(hi)))
	return t
}

func (ex *Exec) symBool(name string) *Term {
	if t, ok := ex.symMap[name]; ok {
		return t
	}
	t := TSym(name, SBool)
	ex.symMap[name] = t
	ex.model[name] = false
	return t
}

// ---- assertions ----

func (ex *Exec) recordViolation(label, kind, msg string, model map[string]interface{}) {
	res := ex.job.res
	res.ViolationCount[label]++
	if res.ViolationCount[label] > ex.w.cfg.MaxViolationsPerLabel {
		return
	}
	v := &Violation{Harness: ex.job.spec.Harness, Params: ex.job.spec.Params, Label: label, Kind: kind, Msg: msg,
		Inputs: model, Choices: append([]int64{}, ex.choices...), Sched: append([]int{}, ex.sched...)}
	if v.Inputs == nil {
		v.Inputs = map[string]interface{}{}
	}
	res.Violations = append(res.Violations, v)
}

func (ex *Exec) vassert(cond Value, label string) {
	res := ex.job.res
	if o, ok := cond.(*Opaque); ok {
		res.Inconclusive["assert "+label+": opaque: "+o.Why]++
		return
	}
	c := boolTerm(cond)
	if v, ok := ex.known(c); ok && v {
		res.AssertTrivial[label]++
		return
	}
	r, model := ex.query(TAnd(append(append([]*Term{}, ex.side...), TNot(c))...), true)
	switch r {
	case Unsat:
		res.AssertChecked[label]++
	case Sat:
		ex.recordViolation(label, "assert", "", model)
		if ex.w.cfg.StopAtViolation {
			panic(pathEnd{kind: "violation-stop"})
		}
	default:
		res.Inconclusive["assert "+label+": solver unknown"]++
	}
	// continue under the assumption that the assertion held
	if c.IsConst() && !c.B {
		panic(pathEnd{kind: "violation-stop"})
	}
	if r != Unsat {
		if ex.check(c) == Unsat {
			panic(pathEnd{kind: "violation-stop"})
		}
	}
	ex.addPC(c)
}

func (ex *Exec) vassume(cond Value) {
	if o, ok := cond.(*Opaque); ok {
		ex.inconclusive("assume on opaque: " + o.Why)
	}
	c := boolTerm(cond)
	if v, ok := ex.known(c); ok {
		if !v {
			panic(pathEnd{kind: "assume"})
		}
		return
	}
	if ex.check(c) == Unsat {
		panic(pathEnd{kind: "assume"})
	}
	ex.addPC(c)
}

// modelNow asks for a model of the current path condition.
func (ex *Exec) modelNow() (map[string]interface{}, bool) {
	var extra *Term
	if len(ex.side) > 0 {
		extra = TAnd(ex.side...)
	}
	r, model := ex.query(extra, true)
	if len(ex.symMap) == 0 && r == Sat {
		return map[string]interface{}{}, true
	}
	return model, r == Sat
}

// ---- running one job ----

func (w *Worker) runJob(spec JobSpec) *JobResult {
	t0 := time.Now()
	res := &JobResult{Spec: spec, AssertChecked: map[string]int{}, AssertTrivial: map[string]int{}, Reached: map[string]int{},
		ViolationCount: map[string]int{}, Inconclusive: map[string]int{}}
	jr := &jobRun{spec: spec, res: res, qcache: map[qkey]qval{}}
	fn := w.findHarness(spec.Harness)
	if fn == nil {
		res.Inconclusive["harness not found (does not compile against this tree?): "+spec.Harness]++
		return res
	}
	deadline := time.Now().Add(w.cfg.JobTimeout)
	for {
		res.Paths++
		w.runPath(jr, fn)
		// backtrack
		for len(jr.log) > 0 && len(jr.log[len(jr.log)-1].Alts) == 0 {
			jr.log = jr.log[:len(jr.log)-1]
		}
		if len(jr.log) == 0 {
			break
		}
		last := &jr.log[len(jr.log)-1]
		last.Choice = last.Alts[0]
		last.Alts = last.Alts[1:]
		if res.Paths >= w.cfg.MaxPaths {
			res.CapHit = true
			res.Inconclusive[fmt.Sprintf("path cap %d reached", w.cfg.MaxPaths)]++
			break
		}
		if time.Now().After(deadline) {
			res.CapHit = true
			res.Inconclusive[fmt.Sprintf("job time box %s reached after %d paths", w.cfg.JobTimeout, res.Paths)]++
			break
		}
	}
	res.Wall = time.Since(t0)
	return res
}

func (w *Worker) runPath(jr *jobRun, fn *ssa.Function) {
	ex := &Exec{w: w, job: jr, globals: map[*ssa.Global]*Value{}, pcSet: map[string]bool{}, symMap: map[string]*Term{},
		locks: map[*Value]*lockState{}, wgs: map[*Value]*wgState{}, onces: map[*Value]bool{}, atomics: map[*Value]Value{}, ghost: map[string]Value{}, model: map[string]interface{}{}, modelOK: true}
	ex.clock = int64(0)
	main := &Goroutine{id: 0, resume: make(chan struct{}, 1)}
	ex.cur = main
	ex.gs = []*Goroutine{main}
	if w.cfg.Concurrent {
		ex.race = newRaceState()
		ex.race.initG(main, nil)
	}
	res := jr.res
	end := ex.runMain(fn, jr.spec.Params)
	ex.killGoroutines()
	res.Steps += ex.steps
	switch end.kind {
	case "done":
		res.PathsDone++
		if len(res.Samples) < 3 {
			if m, ok := ex.modelNow(); ok {
				m["__choices"] = fmt.Sprint(ex.choices)
				res.Samples = append(res.Samples, m)
			}
		}
	case "infeasible", "assume", "violation-stop":
		res.Infeasible++
	case "crash":
		m, ok := ex.modelNow()
		if ok {
			ex.recordViolation("panic", "panic", end.msg, m)
		} else {
			res.Inconclusive["panic path without model: "+end.msg]++
		}
	case "deadlock":
		m, ok := ex.modelNow()
		if ok {
			ex.recordViolation("deadlock", "deadlock", end.msg, m)
		} else {
			res.Inconclusive["deadlock path without model"]++
		}
	case "race":
		m, ok := ex.modelNow()
		if ok {
			ex.recordViolation("race", "race", end.msg, m)
		} else {
			res.Inconclusive["race path without model"]++
		}
	case "cap":
		if strings.Contains(end.msg, "call depth") {
			m, ok := ex.modelNow()
			if ok {
				ex.recordViolation("depth-cap", "depth-cap", end.msg, m)
				break
			}
		}
		if strings.Contains(end.msg, "loop unrolling cap") {
			// a loop that runs past the unrolling cap on one path is a candidate
			// non-termination: reported only if the native replay hangs as well
			m, ok := ex.modelNow()
			if ok {
				ex.recordViolation("loop-cap", "loop-cap", end.msg, m)
				break
			}
		}
		res.CapHit = true
		res.Inconclusive["cap: "+end.msg]++
	default:
		msg := end.msg
		if len(msg) > 300 && end.kind != "engine-error" {
			msg = msg[:300]
		}
		res.Inconclusive[end.kind+": "+msg]++
	}
}

// runMain runs the harness on the calling (real) goroutine.
func (ex *Exec) runMain(fn *ssa.Function, params []int64) (end pathEnd) {
	defer func() {
		r := recover()
		switch r := r.(type) {
		case nil:
		case pathEnd:
			end = r
			if r.kind == "abort" && ex.endMsg != "" {
				end = pathEnd{kind: ex.endKind(), msg: ex.endMsg}
			}
		case targetPanic:
			end = pathEnd{kind: "crash", msg: ex.panicText(r)}
		default:
			end = pathEnd{kind: "engine-error", msg: fmt.Sprint(r)}
		}
	}()
	ex.w.runInits(ex)
	var args []Value
	sig := fn.Signature
	for i := 0; i < sig.Params().Len(); i++ {
		var p int64
		if i < len(params) {
			p = params[i]
		}
		if isInteger(sig.Params().At(i).Type()) {
			args = append(args, p)
		} else if isBool(sig.Params().At(i).Type()) {
			args = append(args, p != 0)
		} else {
			panic(pathEnd{kind: "engine-error", msg: "harness parameter type not int/bool"})
		}
	}
	ex.callSSA(nil, 0, fn, args, nil)
	return pathEnd{kind: "done"}
}

func (ex *Exec) endKind() string {
	if i := strings.Index(ex.endMsg, ":"); i > 0 {
		return ex.endMsg[:i]
	}
	return "abort"
}

func (ex *Exec) panicText(p targetPanic) string {
	s := ""
	switch v := p.v.(type) {
	case Iface:
		if v.T != nil {
			s = toString(v.V) + " (" + v.T.String() + ")"
		} else {
			s = "nil"
		}
	default:
		s = toString(v)
	}
	return s + " at " + p.pos
}

func typeString(t types.Type) string {
	if t == nil {
		return "nil"
	}
	return types.TypeString(t, nil)
}

func sortedCounts(m map[string]int) []string {
	var ks []string
	for k := range m {
		ks = append(ks, k)
	}
	sort.Strings(ks)
	return ks
}
