package main

// Native replay: every counterexample (and a few passing samples per check) is run
// against the real build through `go test -overlay`, so that nothing is reported that
// the real code does not do, and so that engine and implementation are compared on
// every run (translator validation).

import (
	"bytes"
	"context"
	"encoding/json"
	"fmt"
	"os"
	"os/exec"
	"path/filepath"
	"regexp"
	"strings"
	"sync"
	"time"
)

type Replayer struct {
	repo, hdir string
	tmp        string
	mu         sync.Mutex
	bins       map[string]string // pkg dir -> test binary
	buildErr   map[string]string
	race       bool
	BuildTime  time.Duration
}

func NewReplayer(repo, hdir string, race bool) (*Replayer, error) {
	tmp, err := os.MkdirTemp("", "verif-replay-")
	if err != nil {
		return nil, err
	}
	return &Replayer{repo: repo, hdir: hdir, tmp: tmp, bins: map[string]string{}, buildErr: map[string]string{}, race: race}, nil
}

func (r *Replayer) Close() { os.RemoveAll(r.tmp) }

var timeNowRe = regexp.MustCompile(`\btime\.Now\(\)`)
var timeSleepRe = regexp.MustCompile(`\btime\.Sleep\(`)
var timeSinceRe = regexp.MustCompile(`\btime\.Since\(`)
var timeAfterRe = regexp.MustCompile(`\btime\.After\(`)

const replayTestSrc = `package PKG

import (
	"fmt"
	"os"
	"testing"
)

func TestVHReplay(t *testing.T) {
	vLoad()
	name := os.Getenv("VERIF_HARNESS")
	fn, ok := vHarnesses[name]
	if !ok {
		fmt.Println("VNOHARNESS", name)
		t.Fatal("no harness")
	}
	defer func() {
		if r := recover(); r != nil {
			if _, ok := r.(vAssumeFailed); ok {
				fmt.Println("VASSUME-FAILED")
				return
			}
			fmt.Println("VPANIC", r)
			panic(r)
		}
	}()
	// schedule-dependent counterexamples: repeat until the assertion fails once
	repeat := 1
	if r := os.Getenv("VERIF_REPEAT"); r != "" {
		fmt.Sscanf(r, "%d", &repeat)
	}
	for i := 0; i < repeat; i++ {
		vChoicePos = 0
		fn(vLoad().Params)
		if len(vFailed) > 0 {
			break
		}
	}
	fmt.Println("VDONE")
}
`

// harnessTable generates the name -> function table for a package from the harness
// sources (functions named VH_*), adapting int/bool parameters.
func harnessTable(pkg string, files map[string][]byte) string {
	var b strings.Builder
	b.WriteString("package " + pkg + "\n\nvar vHarnesses = map[string]func(p []int64){\n")
	re := regexp.MustCompile(`(?m)^func (VH_\w+)\(([^)]*)\)`)
	for _, src := range files {
		for _, m := range re.FindAllStringSubmatch(string(src), -1) {
			name, params := m[1], strings.TrimSpace(m[2])
			var args []string
			if params != "" {
				// forms: "a, b int" / "a int, b bool"
				groups := strings.Split(params, ",")
				pending, idx := 0, 0
				for _, g := range groups {
					f := strings.Fields(strings.TrimSpace(g))
					pending++
					if len(f) == 2 {
						for k := 0; k < pending; k++ {
							if f[1] == "bool" {
								args = append(args, fmt.Sprintf("vparam(p,%d)!=0", idx))
							} else {
								args = append(args, fmt.Sprintf("%s(vparam(p,%d))", f[1], idx))
							}
							idx++
						}
						pending = 0
					}
				}
			}
			fmt.Fprintf(&b, "\t%q: func(p []int64) { %s(%s) },\n", pkg+"."+name, name, strings.Join(args, ", "))
		}
	}
	b.WriteString("}\n\nfunc vparam(p []int64, i int) int64 {\n\tif i < len(p) {\n\t\treturn p[i]\n\t}\n\treturn 0\n}\n")
	return b.String()
}

// build compiles the test binary of one package with harness, prims, replay test and
// clock-redirected copies of the package's sources.
func (r *Replayer) build(pkg string) (string, error) {
	r.mu.Lock()
	defer r.mu.Unlock()
	if b, ok := r.bins[pkg]; ok {
		return b, nil
	}
	if e, ok := r.buildErr[pkg]; ok {
		return "", fmt.Errorf("%s", e)
	}
	t0 := time.Now()
	defer func() { r.BuildTime += time.Since(t0) }()
	dir := filepath.Join(r.tmp, pkg)
	os.MkdirAll(dir, 0o755)
	replace := map[string]string{}
	add := func(virtual string, content []byte) error {
		real := filepath.Join(dir, strings.ReplaceAll(strings.TrimPrefix(virtual, r.repo+"/"), "/", "__"))
		if err := os.WriteFile(real, content, 0o644); err != nil {
			return err
		}
		replace[virtual] = real
		return nil
	}
	// harness files
	hfiles := map[string][]byte{}
	matches, _ := filepath.Glob(filepath.Join(r.hdir, pkg, "*.go"))
	for _, f := range matches {
		b, err := os.ReadFile(f)
		if err != nil {
			return "", err
		}
		hfiles[f] = b
		if err := add(filepath.Join(r.repo, pkg, "zz_verif_"+filepath.Base(f)), b); err != nil {
			return "", err
		}
	}
	prims, err := os.ReadFile(filepath.Join(r.hdir, "_prims", "prims.go"))
	if err != nil {
		return "", err
	}
	native, _ := os.ReadFile(filepath.Join(r.hdir, "_prims", "native.go"))
	add(filepath.Join(r.repo, pkg, "zz_verif_prims.go"), []byte(strings.Replace(string(prims), "package PKG", "package "+pkg, 1)))
	if native != nil {
		add(filepath.Join(r.repo, pkg, "zz_verif_native.go"), []byte(strings.Replace(string(native), "package PKG", "package "+pkg, 1)))
	}
	add(filepath.Join(r.repo, pkg, "zz_verif_replay_test.go"), []byte(strings.Replace(replayTestSrc, "package PKG", "package "+pkg, 1)))
	add(filepath.Join(r.repo, pkg, "zz_verif_table.go"), []byte(harnessTable(pkg, hfiles)))
	// clock redirection: generated from the current sources at replay time
	// (package cron replays against the real clock: its timers are real)
	srcs, _ := filepath.Glob(filepath.Join(r.repo, pkg, "*.go"))
	if pkg == "cron" {
		srcs = nil
	}
	for _, f := range srcs {
		if strings.HasSuffix(f, "_test.go") {
			continue
		}
		b, err := os.ReadFile(f)
		if err != nil {
			continue
		}
		if !timeNowRe.Match(b) && !timeSleepRe.Match(b) && !timeSinceRe.Match(b) && !timeAfterRe.Match(b) {
			continue
		}
		if bytes.Contains(b, []byte("//go:build")) && bytes.Contains(b, []byte("ignore")) {
			continue
		}
		nb := timeNowRe.ReplaceAll(b, []byte("vTimeNow()"))
		nb = timeSleepRe.ReplaceAll(nb, []byte("vTimeSleep("))
		nb = timeSinceRe.ReplaceAll(nb, []byte("vTimeSince("))
		nb = append(nb, []byte("\n\nvar _ = time.Now\n")...)
		add(f, nb)
	}
	ovPath := filepath.Join(dir, "overlay.json")
	ovJSON, _ := json.Marshal(map[string]interface{}{"Replace": replace})
	os.WriteFile(ovPath, ovJSON, 0o644)
	bin := filepath.Join(dir, pkg+".test")
	args := []string{"test", "-c", "-vet=off", "-overlay", ovPath, "-o", bin}
	if r.race {
		args = append(args, "-race")
	}
	args = append(args, "./"+pkg)
	cmd := exec.Command("go", args...)
	cmd.Dir = r.repo
	cmd.Env = append(os.Environ(), "GOFLAGS=-mod=mod", "GOPROXY=off", "GOSUMDB=off", "GOTOOLCHAIN=local")
	out, err := cmd.CombinedOutput()
	if err != nil {
		msg := fmt.Sprintf("replay build failed for %s: %v\n%s", pkg, err, out)
		r.buildErr[pkg] = msg
		return "", fmt.Errorf("%s", msg)
	}
	r.bins[pkg] = bin
	return bin, nil
}

type ReplayResult struct {
	Ran      bool
	Out      string
	Failed   []string // labels that failed natively
	Panicked bool
	TimedOut bool
	Done     bool
	Assume   bool
	Race     bool
}

func pkgOfHarness(h string) string {
	return h[:strings.LastIndex(h, ".")]
}

// Run replays one assignment natively.
func (r *Replayer) Run(v *Violation, file string, timeout time.Duration) (*ReplayResult, error) {
	pkg := pkgOfHarness(v.Harness)
	bin, err := r.build(pkg)
	if err != nil {
		return nil, err
	}
	ctx, cancel := context.WithTimeout(context.Background(), timeout)
	defer cancel()
	cmd := exec.CommandContext(ctx, bin, "-test.run", "^TestVHReplay$", "-test.count=1", "-test.timeout", (timeout + 5*time.Second).String())
	cmd.Dir = filepath.Join(r.repo, pkg)
	cmd.Env = append(os.Environ(), "VERIF_REPLAY="+file, "VERIF_HARNESS="+v.Harness)
	if len(v.Sched) > 0 && (v.Kind == "assert" || v.Kind == "deadlock" || v.Kind == "crash" || v.Kind == "panic") {
		// found under a particular schedule: natively, stress it (with schedule noise
		// injected at the code's log records, see vjitter)
		cmd.Env = append(cmd.Env, "VERIF_REPEAT=20000", "VERIF_JITTER=1")
	}
	out, _ := cmd.CombinedOutput()
	res := &ReplayResult{Ran: true, Out: string(out)}
	if ctx.Err() == context.DeadlineExceeded {
		res.TimedOut = true
	}
	for _, line := range strings.Split(string(out), "\n") {
		switch {
		case strings.HasPrefix(line, "VFAIL "):
			res.Failed = append(res.Failed, strings.TrimSpace(strings.TrimPrefix(line, "VFAIL ")))
		case strings.HasPrefix(line, "VPANIC"), strings.HasPrefix(line, "panic:"), strings.HasPrefix(line, "fatal error:"):
			res.Panicked = true
		case strings.HasPrefix(line, "VDONE"):
			res.Done = true
		case strings.HasPrefix(line, "VASSUME-FAILED"):
			res.Assume = true
		case strings.Contains(line, "WARNING: DATA RACE"):
			res.Race = true
		}
	}
	if len(res.Out) > 4000 {
		res.Out = res.Out[:4000] + "…"
	}
	return res, nil
}

func writeAssignment(path string, v *Violation) error {
	b, err := json.MarshalIndent(v, "", " ")
	if err != nil {
		return err
	}
	return os.WriteFile(path, b, 0o644)
}

// reproduced decides whether the native run confirms the engine's prediction.
func reproduced(v *Violation, rr *ReplayResult) bool {
	switch v.Kind {
	case "assert":
		for _, l := range rr.Failed {
			if l == v.Label {
				return true
			}
		}
		return false
	case "panic":
		return rr.Panicked
	case "depth-cap":
		return rr.Panicked || rr.TimedOut
	case "loop-cap":
		return rr.TimedOut
	case "deadlock":
		return rr.TimedOut || strings.Contains(rr.Out, "all goroutines are asleep")
	case "race":
		return rr.Race
	}
	return false
}
