module gosym

go 1.23

require golang.org/x/tools v0.29.0

require (
	github.com/gorhill/cronexpr v0.0.0-20180427100037-88b0669f7d75
	golang.org/x/mod v0.22.0 // indirect
	golang.org/x/sync v0.10.0 // indirect
)
