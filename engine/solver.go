package main

// Solver driver: one long-lived `z3 -in` (or cvc5 --incremental) process per worker,
// assertion stack aligned with the path condition of the re-executing DFS.

import (
	"bufio"
	"fmt"
	"io"
	"os/exec"
	"strconv"
	"strings"
	"time"
)

type SatResult int

const (
	Unsat SatResult = iota
	Sat
	Unknown
)

func (r SatResult) String() string {
	return [...]string{"unsat", "sat", "unknown"}[r]
}

type Solver struct {
	kind      string
	cmd       *exec.Cmd
	in        io.WriteCloser
	out       *bufio.Reader
	frames    []string       // asserted conjunct strings, one push level each
	declLevel map[string]int // symbol -> level at which it was declared
	Queries   int
	NSat      int
	NUnsat    int
	NUnknown  int
	Time      time.Duration
	Errors    []string
	timeoutMs int
	log       io.Writer
}

func solverArgv(kind string, timeoutMs int) []string {
	switch kind {
	case "z3":
		return []string{"z3", "-in"}
	case "z3-new":
		return []string{"z3-new", "-in"}
	case "cvc5":
		return []string{"cvc5", "--incremental", "--lang=smt2", "--produce-models", "--strings-exp", fmt.Sprintf("--tlimit-per=%d", timeoutMs)}
	}
	panic("unknown solver " + kind)
}

func NewSolver(kind string, timeoutMs int) (*Solver, error) {
	argv := solverArgv(kind, timeoutMs)
	cmd := exec.Command(argv[0], argv[1:]...)
	in, err := cmd.StdinPipe()
	if err != nil {
		return nil, err
	}
	outp, err := cmd.StdoutPipe()
	if err != nil {
		return nil, err
	}
	cmd.Stderr = cmd.Stdout
	if err := cmd.Start(); err != nil {
		return nil, err
	}
	s := &Solver{kind: kind, cmd: cmd, in: in, out: bufio.NewReaderSize(outp, 1<<16), declLevel: map[string]int{}, timeoutMs: timeoutMs}
	if kind != "cvc5" {
		s.send(fmt.Sprintf("(set-option :timeout %d)", timeoutMs))
		s.send("(set-option :model.completion true)")
	} else {
		s.send("(set-logic ALL)")
	}
	return s, nil
}

func (s *Solver) Close() {
	if s == nil || s.cmd == nil {
		return
	}
	s.in.Close()
	s.cmd.Process.Kill()
	s.cmd.Wait()
	s.cmd = nil
}

func (s *Solver) send(line string) {
	if s.log != nil {
		fmt.Fprintln(s.log, line)
	}
	io.WriteString(s.in, line)
	io.WriteString(s.in, "\n")
}

// readSexp reads one complete response (an atom line or a balanced s-expression).
func (s *Solver) readSexp() (string, error) {
	var b strings.Builder
	depth := 0
	inStr := false
	started := false
	for {
		line, err := s.out.ReadString('\n')
		if err != nil && line == "" {
			return b.String(), err
		}
		for i := 0; i < len(line); i++ {
			c := line[i]
			if inStr {
				if c == '"' {
					inStr = false
				}
				continue
			}
			switch c {
			case '"':
				inStr = true
				started = true
			case '(':
				depth++
				started = true
			case ')':
				depth--
			case ' ', '\n', '\t', '\r':
			default:
				started = true
			}
		}
		b.WriteString(line)
		if started && depth <= 0 && !inStr {
			return strings.TrimSpace(b.String()), nil
		}
	}
}

func (s *Solver) level() int { return len(s.frames) }

func (s *Solver) popTo(n int) {
	if n >= len(s.frames) {
		return
	}
	s.send(fmt.Sprintf("(pop %d)", len(s.frames)-n))
	s.frames = s.frames[:n]
	for k, l := range s.declLevel {
		if l > n {
			delete(s.declLevel, k)
		}
	}
}

func (s *Solver) declare(t *Term, level int) {
	syms := map[string]*Term{}
	t.Syms(syms)
	for name, sy := range syms {
		if _, ok := s.declLevel[name]; ok {
			continue
		}
		s.send(fmt.Sprintf("(declare-fun %s () %s)", smtSym(name), sy.Sort))
		s.declLevel[name] = level
	}
}

// SetPC aligns the solver's assertion stack with pc.
func (s *Solver) SetPC(pc []*Term) {
	n := 0
	for n < len(pc) && n < len(s.frames) && s.frames[n] == pc[n].String() {
		n++
	}
	s.popTo(n)
	for i := n; i < len(pc); i++ {
		s.send("(push 1)")
		s.frames = append(s.frames, pc[i].String())
		s.declare(pc[i], len(s.frames))
		s.send("(assert " + pc[i].String() + ")")
	}
}

// Check decides pc ∧ extra. If wantModel, values of syms are returned on sat.
func (s *Solver) Check(pc []*Term, extra *Term, syms map[string]*Term) (SatResult, map[string]interface{}) {
	s.SetPC(pc)
	t0 := time.Now()
	s.Queries++
	s.send("(push 1)")
	lvl := len(s.frames) + 1
	if extra != nil {
		s.declare(extra, lvl)
		s.send("(assert " + extra.String() + ")")
	}
	for _, sy := range syms {
		s.declare(sy, lvl)
	}
	s.send("(check-sat)")
	resp, err := s.readSexp()
	res := Unknown
	if err != nil {
		s.Errors = append(s.Errors, "solver died: "+err.Error())
	}
	// any (error line is inconclusive; drain possible further errors is not needed: errors come one per command
	for strings.HasPrefix(resp, "(error") {
		s.Errors = append(s.Errors, resp)
		resp, err = s.readSexp()
		if err != nil {
			break
		}
		if resp == "sat" || resp == "unsat" || resp == "unknown" {
			resp = "unknown"
		}
	}
	switch resp {
	case "sat":
		res = Sat
	case "unsat":
		res = Unsat
	}
	var model map[string]interface{}
	if res == Sat && syms != nil && len(syms) > 0 {
		var names []string
		for _, n := range sortedSymNames(syms) {
			names = append(names, smtSym(n))
		}
		s.send("(get-value (" + strings.Join(names, " ") + "))")
		mresp, err := s.readSexp()
		if err != nil || strings.HasPrefix(mresp, "(error") {
			s.Errors = append(s.Errors, "get-value: "+mresp)
			res = Unknown
		} else {
			model = parseModel(mresp, syms)
		}
	}
	s.send("(pop 1)")
	for k, l := range s.declLevel {
		if l >= lvl {
			delete(s.declLevel, k)
		}
	}
	switch res {
	case Sat:
		s.NSat++
	case Unsat:
		s.NUnsat++
	default:
		s.NUnknown++
	}
	s.Time += time.Since(t0)
	return res, model
}

// ---- s-expression model parsing ----

type sx struct {
	atom string
	list []*sx
	isA  bool
}

func parseSx(s string) *sx {
	pos := 0
	var parse func() *sx
	skip := func() {
		for pos < len(s) && (s[pos] == ' ' || s[pos] == '\n' || s[pos] == '\t' || s[pos] == '\r') {
			pos++
		}
	}
	parse = func() *sx {
		skip()
		if pos >= len(s) {
			return nil
		}
		if s[pos] == '(' {
			pos++
			n := &sx{}
			for {
				skip()
				if pos >= len(s) {
					return n
				}
				if s[pos] == ')' {
					pos++
					return n
				}
				n.list = append(n.list, parse())
			}
		}
		if s[pos] == '"' {
			start := pos
			pos++
			for pos < len(s) {
				if s[pos] == '"' {
					if pos+1 < len(s) && s[pos+1] == '"' {
						pos += 2
						continue
					}
					pos++
					break
				}
				pos++
			}
			return &sx{atom: s[start:pos], isA: true}
		}
		if s[pos] == '|' {
			start := pos
			pos++
			for pos < len(s) && s[pos] != '|' {
				pos++
			}
			pos++
			return &sx{atom: s[start:pos], isA: true}
		}
		start := pos
		for pos < len(s) && !strings.ContainsRune(" \n\t\r()", rune(s[pos])) {
			pos++
		}
		return &sx{atom: s[start:pos], isA: true}
	}
	return parse()
}

func unescapeSMT(lit string) string {
	// lit includes the quotes
	body := lit[1 : len(lit)-1]
	body = strings.ReplaceAll(body, `""`, `"`)
	var b strings.Builder
	for i := 0; i < len(body); i++ {
		if body[i] == '\\' && i+1 < len(body) && body[i+1] == 'u' {
			// \u{X..} or \uXXXX
			j := i + 2
			if j < len(body) && body[j] == '{' {
				k := strings.IndexByte(body[j:], '}')
				if k > 0 {
					if v, err := strconv.ParseInt(body[j+1:j+k], 16, 32); err == nil {
						b.WriteRune(rune(v))
						i = j + k
						continue
					}
				}
			} else if j+4 <= len(body) {
				if v, err := strconv.ParseInt(body[j:j+4], 16, 32); err == nil {
					b.WriteRune(rune(v))
					i = j + 3
					continue
				}
			}
		}
		if body[i] == '\\' && i+1 < len(body) && body[i+1] == 'x' && i+4 <= len(body) {
			if v, err := strconv.ParseInt(body[i+2:i+4], 16, 32); err == nil {
				b.WriteByte(byte(v))
				i += 3
				continue
			}
		}
		b.WriteByte(body[i])
	}
	return b.String()
}

func sxInt(n *sx) (int64, bool) {
	if n.isA {
		v, err := strconv.ParseInt(n.atom, 10, 64)
		return v, err == nil
	}
	if len(n.list) == 2 && n.list[0].isA && n.list[0].atom == "-" {
		v, ok := sxInt(n.list[1])
		return -v, ok
	}
	return 0, false
}

func parseModel(resp string, syms map[string]*Term) map[string]interface{} {
	m := map[string]interface{}{}
	root := parseSx(resp)
	if root == nil {
		return m
	}
	byPrinted := map[string]string{}
	for n := range syms {
		byPrinted[smtSym(n)] = n
		byPrinted[strings.Trim(smtSym(n), "|")] = n
	}
	for _, pair := range root.list {
		if pair == nil || len(pair.list) != 2 || !pair.list[0].isA {
			continue
		}
		name, ok := byPrinted[pair.list[0].atom]
		if !ok {
			continue
		}
		v := pair.list[1]
		switch syms[name].Sort {
		case SBool:
			m[name] = v.isA && v.atom == "true"
		case SInt:
			if i, ok := sxInt(v); ok {
				m[name] = i
			}
		case SString:
			if v.isA && strings.HasPrefix(v.atom, `"`) {
				m[name] = unescapeSMT(v.atom)
			}
		}
	}
	return m
}

// CheckSet decides the conjunction of conjs (no incremental stack: used with
// constraint-independence slicing, where consecutive queries share little).
func (s *Solver) CheckSet(conjs []*Term, syms map[string]*Term) (SatResult, map[string]interface{}) {
	s.popTo(0)
	t0 := time.Now()
	s.Queries++
	for _, c := range conjs {
		s.declare(c, 0)
	}
	for _, sy := range syms {
		s.declare(sy, 0)
	}
	s.send("(push 1)")
	for _, c := range conjs {
		s.send("(assert " + c.String() + ")")
	}
	s.send("(check-sat)")
	resp, err := s.readSexp()
	res := Unknown
	if err != nil {
		s.Errors = append(s.Errors, "solver died: "+err.Error())
	}
	for strings.HasPrefix(resp, "(error") {
		s.Errors = append(s.Errors, resp)
		resp, err = s.readSexp()
		if err != nil {
			break
		}
		if resp == "sat" || resp == "unsat" || resp == "unknown" {
			resp = "unknown"
		}
	}
	switch resp {
	case "sat":
		res = Sat
	case "unsat":
		res = Unsat
	}
	var model map[string]interface{}
	if res == Sat && len(syms) > 0 {
		var names []string
		for _, n := range sortedSymNames(syms) {
			names = append(names, smtSym(n))
		}
		s.send("(get-value (" + strings.Join(names, " ") + "))")
		mresp, err := s.readSexp()
		if err != nil || strings.HasPrefix(mresp, "(error") {
			s.Errors = append(s.Errors, "get-value: "+mresp)
			res = Unknown
		} else {
			model = parseModel(mresp, syms)
		}
	}
	s.send("(pop 1)")
	switch res {
	case Sat:
		s.NSat++
	case Unsat:
		s.NUnsat++
	default:
		s.NUnknown++
	}
	s.Time += time.Since(t0)
	return res, model
}
