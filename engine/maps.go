package main

import (
	"fmt"
	"go/types"

	"golang.org/x/tools/go/ssa"
)

// findEntry locates key in m. It returns the entry index or -1 (absent). With
// symbolic keys the choice among "equals entry i" / "absent" is a decision whose
// guard is added to the path condition. Invariant: the keys of a map are pairwise
// distinct under the path condition.
func (ex *Exec) findEntry(fr *frame, m *Map, key Value) int {
	if o, ok := key.(*Opaque); ok {
		ex.inconclusive("opaque map key: " + o.Why)
	}
	var cand []int
	var guards []*Term
	for i, e := range m.Entries {
		eq := ex.equals(fr, m.KeyT, key, e.K)
		if eq.IsConst() {
			if eq.B {
				return i
			}
			continue
		}
		cand = append(cand, i)
		guards = append(guards, eq)
	}
	if len(cand) == 0 {
		return -1
	}
	var nots []*Term
	for _, g := range guards {
		nots = append(nots, TNot(g))
	}
	all := append(append([]*Term{}, guards...), TAnd(nots...))
	c := ex.decide("mapkey", all)
	if c == len(cand) {
		return -1
	}
	return cand[c]
}

func (ex *Exec) lookup(fr *frame, instr *ssa.Lookup, x, idx Value) Value {
	ex.checkOpaque(fr, x, idx)
	switch x := x.(type) {
	case *Map:
		var v Value
		ok := false
		if x != nil {
			ex.mapAccess(fr, x, false)
			if i := ex.findEntry(fr, x, idx); i >= 0 {
				v = x.Entries[i].V
				ok = true
			}
		}
		et := instr.X.Type().Underlying().(*types.Map).Elem()
		if !ok {
			v = zero(et)
		} else {
			v = copyVal(et, v)
		}
		if instr.CommaOk {
			return Tuple{v, ok}
		}
		return v
	case string:
		if it, ok := idx.(*Term); ok {
			return ex.symStringIndex(fr, TStr(x), it)
		}
		return int64(x[ex.concreteIndex(fr, idx, len(x))])
	case *Term:
		return ex.symStringIndex(fr, x, intTerm(idx))
	}
	panic(fmt.Sprintf("unexpected x type in Lookup: %T", x))
}

func (ex *Exec) mapUpdate(fr *frame, m *Map, key, v Value) {
	if i := ex.findEntry(fr, m, key); i >= 0 {
		m.Entries[i].V = v
		return
	}
	m.Entries = append(m.Entries, &MapEntry{K: key, V: v})
	m.ver++
}

func (ex *Exec) mapDelete(fr *frame, m *Map, key Value) {
	if i := ex.findEntry(fr, m, key); i >= 0 {
		ne := make([]*MapEntry, 0, len(m.Entries)-1)
		ne = append(ne, m.Entries[:i]...)
		ne = append(ne, m.Entries[i+1:]...)
		m.Entries = ne
		m.ver++
	}
}

// mapGet is a helper for intrinsics: concrete string key lookup.
func (ex *Exec) mapGetStr(m *Map, key string) (Value, bool) {
	if m == nil {
		return nil, false
	}
	for _, e := range m.Entries {
		if s, ok := e.K.(string); ok && s == key {
			return e.V, true
		}
	}
	return nil, false
}

func (ex *Exec) permuteHere(fr *frame) bool {
	if fr == nil {
		return false
	}
	return ex.w.cfg.permuteSet[fr.fn.String()] || ex.w.cfg.permuteSet["*"]
}

func (ex *Exec) choosePerm(n int) []int {
	perms := permutations(n)
	guards := make([]*Term, len(perms))
	for i := range guards {
		guards[i] = TTrue
	}
	c := ex.decide("maporder", guards)
	return perms[c]
}

func permutations(n int) [][]int {
	if n == 0 {
		return [][]int{{}}
	}
	var out [][]int
	var rec func(cur []int, used []bool)
	rec = func(cur []int, used []bool) {
		if len(cur) == n {
			out = append(out, append([]int{}, cur...))
			return
		}
		for i := 0; i < n; i++ {
			if !used[i] {
				used[i] = true
				rec(append(cur, i), used)
				used[i] = false
			}
		}
	}
	rec(nil, make([]bool, n))
	return out
}
