package main

// Goroutines, channels, select, mutexes, wait groups, and the vector-clock race
// monitor. Each target goroutine runs on its own real goroutine; a baton makes sure
// exactly one runs at a time, and switches happen only at synchronisation points.

import (
	"fmt"
	"go/token"
	"go/types"
	"os"

	"golang.org/x/tools/go/ssa"
)

var traceSched = os.Getenv("VERIF_TRACE") != ""

type Goroutine struct {
	id      int
	resume  chan struct{}
	exited  chan struct{}
	done    bool
	started bool
	waiting func() bool
	desc    string
	vc      map[int]int
}

type lockState struct {
	held    bool
	owner   *Goroutine
	readers int
	wwait   int         // Lock calls currently waiting (RWMutex writer preference)
	vc      map[int]int // released by Unlock: acquired by Lock and RLock
	rvc     map[int]int // released by RUnlock: acquired by Lock only (readers are not ordered among themselves)
}

type wgState struct {
	n  int64
	vc map[int]int
}

func (ex *Exec) spawn(fr *frame, pos token.Pos, fn Value, args []Value) {
	g := &Goroutine{id: len(ex.gs), resume: make(chan struct{}, 1), exited: make(chan struct{})}
	ex.gs = append(ex.gs, g)
	if ex.race != nil {
		ex.race.initG(g, ex.cur)
	}
	go func() {
		<-g.resume
		defer close(g.exited)
		defer func() {
			r := recover()
			g.done = true
			if ex.killing {
				return
			}
			switch r := r.(type) {
			case nil:
			case pathEnd:
				if r.kind != "abort" && !ex.aborting {
					ex.endMsg = r.kind + ": " + r.msg
					ex.aborting = true
				}
			case targetPanic:
				if !ex.aborting {
					ex.endMsg = "crash: " + ex.panicText(r) + " (in goroutine)"
					ex.aborting = true
				}
			default:
				if !ex.aborting {
					ex.endMsg = "engine-error: " + fmt.Sprint(r)
					ex.aborting = true
				}
			}
			ex.handoffFromDying(g)
		}()
		if ex.aborting {
			return
		}
		g.started = true
		ex.cur = g
		ex.call(nil, pos, fn, args)
	}()
	ex.yieldPoint("go")
}

func (ex *Exec) runnable(g *Goroutine) bool {
	if g.done {
		return false
	}
	return g.waiting == nil || g.waiting()
}

// switchTo hands the baton to next and parks the current goroutine.
func (ex *Exec) switchTo(next *Goroutine) {
	me := ex.cur
	if next == me {
		return
	}
	next.resume <- struct{}{}
	<-me.resume
	ex.cur = me
	if ex.aborting {
		panic(pathEnd{kind: "abort"})
	}
}

func (ex *Exec) handoffFromDying(g *Goroutine) {
	main := ex.gs[0]
	if ex.aborting {
		main.resume <- struct{}{}
		return
	}
	next := ex.pickNext(nil)
	for next == nil && ex.fireTimerSafe() {
		next = ex.pickNext(nil)
	}
	if next == nil {
		// everyone else is blocked (main included): deadlock
		ex.endMsg = "deadlock: all goroutines blocked: " + ex.blockedDesc()
		ex.aborting = true
		main.resume <- struct{}{}
		return
	}
	next.resume <- struct{}{}
}

func (ex *Exec) blockedDesc() string {
	s := ""
	for _, g := range ex.gs {
		if !g.done && g.waiting != nil {
			s += fmt.Sprintf("[g%d %s] ", g.id, g.desc)
		}
	}
	return s
}

// pickNext selects the next goroutine to run among the runnable ones (excluding
// `not` if non-nil). Sequential mode: lowest id. Concurrent mode: a decision.
func (ex *Exec) pickNext(not *Goroutine) *Goroutine {
	var cands []*Goroutine
	for _, g := range ex.gs {
		if g != not && ex.runnable(g) {
			cands = append(cands, g)
		}
	}
	if len(cands) == 0 {
		return nil
	}
	if !ex.w.cfg.Concurrent || len(cands) == 1 {
		return cands[0]
	}
	c := ex.choose("sched", len(cands))
	ex.sched = append(ex.sched, cands[c].id)
	return cands[c]
}

// block parks the current goroutine until ready() holds.
func (ex *Exec) block(ready func() bool, desc string) {
	g := ex.cur
	for !ready() {
		g.waiting = ready
		g.desc = desc
		next := ex.pickNext(g)
		if traceSched {
			fmt.Fprintf(os.Stderr, "block g%d (%s): next=%v timers=%d\n", g.id, desc, next != nil, len(ex.timers))
		}
		if next == nil {
			if ex.fireTimer() {
				continue
			}
			msg := "deadlock: all goroutines blocked: " + ex.blockedDesc()
			g.waiting = nil
			if g.id == 0 {
				panic(pathEnd{kind: "deadlock", msg: msg})
			}
			ex.endMsg = msg
			ex.aborting = true
			ex.switchTo(ex.gs[0])
			panic(pathEnd{kind: "abort"})
		}
		ex.switchTo(next)
	}
	g.waiting = nil
}

// yieldPoint is a scheduling point for the concurrency mode.
func (ex *Exec) yieldPoint(what string) {
	if !ex.w.cfg.Concurrent {
		return
	}
	var cands []*Goroutine
	cands = append(cands, ex.cur)
	if ex.preempts < ex.w.cfg.Preempt {
		for _, g := range ex.gs {
			if g != ex.cur && ex.runnable(g) {
				cands = append(cands, g)
			}
		}
	}
	if len(cands) == 1 {
		return
	}
	c := ex.choose("yield", len(cands))
	ex.sched = append(ex.sched, cands[c].id)
	if c != 0 {
		ex.preempts++
		ex.switchTo(cands[c])
	}
}

func (ex *Exec) killGoroutines() {
	ex.killing = true
	ex.aborting = true
	for _, g := range ex.gs[1:] {
		select {
		case <-g.exited:
			continue
		default:
		}
		g.resume <- struct{}{}
		<-g.exited
	}
}

// ---- channels ----

func (ex *Exec) newChan(n int, elem types.Type) *Chan {
	ex.nchan++
	return &Chan{id: ex.nchan, cap: n, elemT: elem}
}

func (ex *Exec) chanSend(fr *frame, chv, v Value) {
	ex.checkOpaque(fr, chv)
	ch := chv.(*Chan)
	ex.yieldPoint("send")
	if ch == nil {
		ex.block(func() bool { return false }, "send on nil channel")
	}
	if ch.closed {
		panic(targetPanic{v: Iface{T: ex.w.runtimeErrorString, V: "send on closed channel"}, pos: fr.posStr()})
	}
	ex.syncRelease(&ch.vc)
	// a waiting receiver takes the value directly
	for len(ch.recvq) > 0 {
		w := ch.recvq[0]
		ch.recvq = ch.recvq[1:]
		if w.done {
			continue
		}
		w.v, w.ok, w.done = v, true, true
		return
	}
	if len(ch.buf) < ch.cap {
		ch.buf = append(ch.buf, v)
		return
	}
	w := &chanWaiter{g: ex.cur, v: v}
	ch.sendq = append(ch.sendq, w)
	ex.block(func() bool { return w.done || ch.closed }, fmt.Sprintf("chan send at %s", fr.posStr()))
	if !w.done && ch.closed {
		panic(targetPanic{v: Iface{T: ex.w.runtimeErrorString, V: "send on closed channel"}, pos: fr.posStr()})
	}
}

// tryRecv attempts a non-blocking receive.
func (ex *Exec) tryRecv(ch *Chan) (v Value, ok bool, got bool) {
	if len(ch.buf) > 0 {
		v = ch.buf[0]
		ch.buf = ch.buf[1:]
		// move a blocked sender's value into the buffer
		for len(ch.sendq) > 0 {
			w := ch.sendq[0]
			ch.sendq = ch.sendq[1:]
			if w.done {
				continue
			}
			ch.buf = append(ch.buf, w.v)
			w.done = true
			break
		}
		return v, true, true
	}
	for len(ch.sendq) > 0 {
		w := ch.sendq[0]
		ch.sendq = ch.sendq[1:]
		if w.done {
			continue
		}
		w.done = true
		return w.v, true, true
	}
	if ch.closed {
		return zero(ch.elemT), false, true
	}
	return nil, false, false
}

func (ex *Exec) chanRecv(fr *frame, chv Value, commaOk bool, resT types.Type) Value {
	ex.checkOpaque(fr, chv)
	ch := chv.(*Chan)
	ex.yieldPoint("recv")
	if ch == nil {
		ex.block(func() bool { return false }, "receive on nil channel")
	}
	v, ok, got := ex.tryRecv(ch)
	if !got {
		w := &chanWaiter{g: ex.cur}
		ch.recvq = append(ch.recvq, w)
		ex.block(func() bool { return w.done || ch.closed || (ch.isTimer && ch.fired && len(ch.buf) > 0) }, fmt.Sprintf("chan receive at %s", fr.posStr()))
		if w.done {
			v, ok = w.v, w.ok
		} else {
			w.done = true
			v, ok, _ = ex.tryRecv(ch)
		}
	}
	ex.syncAcquire(&ch.vc)
	if commaOk {
		return Tuple{v, ok}
	}
	return v
}

func (ex *Exec) chanClose(fr *frame, chv Value) {
	ch := chv.(*Chan)
	if ch == nil {
		panic(targetPanic{v: Iface{T: ex.w.runtimeErrorString, V: "close of nil channel"}, pos: fr.posStr()})
	}
	if ch.closed {
		panic(targetPanic{v: Iface{T: ex.w.runtimeErrorString, V: "close of closed channel"}, pos: fr.posStr()})
	}
	ex.syncRelease(&ch.vc)
	ch.closed = true
}

func (ex *Exec) chanReadyRecv(ch *Chan) bool {
	if ch == nil {
		return false
	}
	if len(ch.buf) > 0 || ch.closed {
		return true
	}
	for _, w := range ch.sendq {
		if !w.done {
			return true
		}
	}
	return false
}

func (ex *Exec) chanReadySend(ch *Chan) bool {
	if ch == nil {
		return false
	}
	if ch.closed || len(ch.buf) < ch.cap {
		return true
	}
	for _, w := range ch.recvq {
		if !w.done {
			return true
		}
	}
	return false
}

func (ex *Exec) selectStmt(fr *frame, instr *ssa.Select) Value {
	ex.yieldPoint("select")
	type cs struct {
		ch   *Chan
		send bool
		v    Value
	}
	var cases []cs
	for _, st := range instr.States {
		chv := fr.get(st.Chan)
		ex.checkOpaque(fr, chv)
		c := cs{ch: chv.(*Chan), send: st.Dir == types.SendOnly}
		if st.Send != nil {
			c.v = fr.get(st.Send)
		}
		cases = append(cases, c)
	}
	readyIdx := func() []int {
		var r []int
		for i, c := range cases {
			if c.send && ex.chanReadySend(c.ch) || !c.send && ex.chanReadyRecv(c.ch) {
				r = append(r, i)
			}
		}
		return r
	}
	chosen := -1
	for {
		r := readyIdx()
		if len(r) > 0 {
			if len(r) == 1 {
				chosen = r[0]
			} else {
				k := ex.choose("select", len(r))
				chosen = r[k]
			}
			break
		}
		if !instr.Blocking {
			break
		}
		ex.block(func() bool { return len(readyIdx()) > 0 }, fmt.Sprintf("select at %s", fr.posStr()))
	}
	res := Tuple{int64(chosen), false}
	var recvV Value
	recvOk := false
	if chosen >= 0 {
		c := cases[chosen]
		if c.send {
			if c.ch.closed {
				panic(targetPanic{v: Iface{T: ex.w.runtimeErrorString, V: "send on closed channel"}, pos: fr.posStr()})
			}
			ex.syncRelease(&c.ch.vc)
			delivered := false
			for len(c.ch.recvq) > 0 {
				w := c.ch.recvq[0]
				c.ch.recvq = c.ch.recvq[1:]
				if w.done {
					continue
				}
				w.v, w.ok, w.done = c.v, true, true
				delivered = true
				break
			}
			if !delivered {
				c.ch.buf = append(c.ch.buf, c.v)
			}
		} else {
			recvV, recvOk, _ = ex.tryRecv(c.ch)
			ex.syncAcquire(&c.ch.vc)
		}
	}
	res[1] = recvOk
	for i, st := range instr.States {
		if st.Dir == types.RecvOnly {
			if i == chosen && recvOk {
				res = append(res, recvV)
			} else {
				res = append(res, zero(st.Chan.Type().Underlying().(*types.Chan).Elem()))
			}
		}
	}
	return res
}

// ---- timers ----

// fireTimer fires one pending timer channel (used when nothing else can run).
func (ex *Exec) fireTimer() bool {
	var pend []*Chan
	for _, t := range ex.timers {
		if !t.fired && !t.stopped {
			pend = append(pend, t)
		}
	}
	if len(pend) == 0 {
		return false
	}
	k := 0
	if len(pend) > 1 {
		// fire the one with the smallest deadline; symbolic ties are decided
		k = ex.choose("timer", len(pend))
		for j, o := range pend {
			if j != k {
				ex.vassumeTerm(TLe(intTerm(pend[k].deadline), intTerm(o.deadline)))
			}
		}
	}
	t := pend[k]
	if traceSched {
		fmt.Fprintf(os.Stderr, "fire timer chan %d deadline %v\n", t.id, toString(t.deadline))
	}
	t.fired = true
	ex.clockAtLeast(t.deadline)
	t.buf = append(t.buf, ex.timeStruct(ex.clock))
	return true
}

// fireTimerSafe is fireTimer for contexts that must not unwind (a dying goroutine's
// hand-off): a path end raised while firing is recorded and reported as "no timer".
func (ex *Exec) fireTimerSafe() (fired bool) {
	defer func() {
		if r := recover(); r != nil {
			if pe, ok := r.(pathEnd); ok && !ex.aborting {
				ex.endMsg = pe.kind + ": " + pe.msg
				ex.aborting = true
			}
			fired = false
		}
	}()
	return ex.fireTimer()
}

func (ex *Exec) vassumeTerm(c *Term) {
	ex.vassume(simplify(c))
}

// ---- locks ----

func (ex *Exec) lockOf(p *Value) *lockState {
	l := ex.locks[p]
	if l == nil {
		l = &lockState{}
		ex.locks[p] = l
	}
	return l
}

func (ex *Exec) mutexLock(fr *frame, p *Value, write bool) {
	ex.yieldPoint("lock")
	l := ex.lockOf(p)
	if write {
		// Go's RWMutex prefers writers: a Lock call that has to wait keeps new readers
		// out until it got the lock (so a goroutine that read-locks twice deadlocks with
		// a writer arriving in between)
		l.wwait++
		ex.block(func() bool { return !l.held && l.readers == 0 }, "Lock at "+fr.posStr())
		l.wwait--
		l.held = true
		l.owner = ex.cur
	} else {
		ex.block(func() bool { return !l.held && l.wwait == 0 }, "RLock at "+fr.posStr())
		l.readers++
	}
	ex.syncAcquire(&l.vc)
	if write {
		ex.syncAcquire(&l.rvc)
	}
}

func (ex *Exec) mutexUnlock(fr *frame, p *Value, write bool) {
	l := ex.lockOf(p)
	if write {
		if !l.held {
			panic(pathEnd{kind: "crash", msg: "fatal error: sync: unlock of unlocked mutex at " + fr.posStr()})
		}
		l.held = false
		l.owner = nil
	} else {
		if l.readers == 0 {
			panic(pathEnd{kind: "crash", msg: "fatal error: sync: RUnlock of unlocked RWMutex at " + fr.posStr()})
		}
		l.readers--
	}
	if write {
		ex.syncRelease(&l.vc)
	} else {
		ex.syncRelease(&l.rvc)
	}
	ex.yieldPoint("unlock")
}

// ---- race monitor ----

type cellState struct {
	wg, wc int
	wpos   string
	reads  map[int]int
	rpos   map[int]string
}

type raceState struct {
	cells map[interface{}]*cellState
}

func newRaceState() *raceState { return &raceState{cells: map[interface{}]*cellState{}} }

func (r *raceState) initG(g, parent *Goroutine) {
	g.vc = map[int]int{}
	if parent != nil {
		for k, v := range parent.vc {
			g.vc[k] = v
		}
		parent.vc[parent.id]++
	}
	g.vc[g.id] = 1
}

func joinVC(dst map[int]int, src map[int]int) {
	for k, v := range src {
		if v > dst[k] {
			dst[k] = v
		}
	}
}

func (ex *Exec) syncAcquire(vc *map[int]int) {
	if ex.race == nil || *vc == nil {
		return
	}
	joinVC(ex.cur.vc, *vc)
}

func (ex *Exec) syncRelease(vc *map[int]int) {
	if ex.race == nil {
		return
	}
	if *vc == nil {
		*vc = map[int]int{}
	}
	joinVC(*vc, ex.cur.vc)
	ex.cur.vc[ex.cur.id]++
}

func (ex *Exec) access(fr *frame, key interface{}, write bool, what string) {
	if ex.race == nil || len(ex.gs) == 1 {
		return
	}
	g := ex.cur
	cs := ex.race.cells[key]
	if cs == nil {
		cs = &cellState{wg: -1}
		ex.race.cells[key] = cs
	}
	pos := ""
	if fr != nil {
		pos = fr.posStr()
	}
	if cs.wg >= 0 && cs.wg != g.id && cs.wc > g.vc[cs.wg] {
		panic(pathEnd{kind: "race", msg: fmt.Sprintf("%s: write at %s (g%d) unordered with access at %s (g%d)", what, cs.wpos, cs.wg, pos, g.id)})
	}
	if write {
		for rg, rc := range cs.reads {
			if rg != g.id && rc > g.vc[rg] {
				panic(pathEnd{kind: "race", msg: fmt.Sprintf("%s: read at %s (g%d) unordered with write at %s (g%d)", what, cs.rpos[rg], rg, pos, g.id)})
			}
		}
		cs.wg, cs.wc, cs.wpos = g.id, g.vc[g.id], pos
		cs.reads, cs.rpos = nil, nil
	} else {
		if cs.reads == nil {
			cs.reads = map[int]int{}
			cs.rpos = map[int]string{}
		}
		cs.reads[g.id] = g.vc[g.id]
		cs.rpos[g.id] = pos
	}
}

func (ex *Exec) memAccess(fr *frame, p *Value, write bool) {
	if ex.race == nil || len(ex.gs) == 1 {
		return
	}
	ex.access(fr, p, write, "memory cell")
}

func (ex *Exec) mapAccess(fr *frame, m *Map, write bool) {
	if ex.race == nil || len(ex.gs) == 1 {
		return
	}
	ex.access(fr, m, write, "map")
}
