package main

// Value representation of the symbolic interpreter (modelled on x/tools/go/ssa/interp).
//
//   bool            bool | *Term(Bool)
//   all int kinds   int64 | *Term(Int)   (mathematical value within the type's range)
//   float32/64      float64 | *Term(Int) (integral float, |n| < 2^53)
//   string          string | *Term(String)
//   pointer         *Value
//   struct / array  Struct / Array  (copied on load/store)
//   slice           []Value  (shares its backing array) | *SymBytes | *JSONBytes
//   map             *Map
//   interface       Iface
//   chan            *Chan
//   func            *ssa.Function | *Closure | *ssa.Builtin | *NativeFn
//   tuple           Tuple
//   unsupported     *Opaque

import (
	"bytes"
	"fmt"
	"go/constant"
	"go/types"
	"sort"

	"golang.org/x/tools/go/ssa"
)

type Value interface{}

type Struct []Value
type Array []Value
type Tuple []Value

type Iface struct {
	T types.Type // dynamic type; nil for the nil interface
	V Value
}

type Closure struct {
	Fn  *ssa.Function
	Env []Value
}

// NativeFn is a function value implemented by the engine.
type NativeFn struct {
	Name string
	Fn   func(ex *Exec, fr *frame, args []Value) Value
}

type Opaque struct{ Why string }

// SymBytes is []byte(s) for a symbolic string s.
type SymBytes struct{ S *Term }

// JSONBytes is the result of the json.Marshal model: an opaque byte token that
// carries a JSON-normalised deep snapshot of the marshalled value.
type JSONBytes struct{ V Value }

// JSONStr is string(JSONBytes).
type JSONStr struct{ V Value }

type MapEntry struct {
	K, V Value
}

type Map struct {
	KeyT, ElemT types.Type
	Entries     []*MapEntry
	ver         int
}

type Chan struct {
	id     int
	cap    int
	buf    []Value
	closed bool
	elemT  types.Type
	// rendezvous for unbuffered channels
	sendq []*chanWaiter
	recvq []*chanWaiter
	// timer channel: becomes ready when the clock reaches deadline
	isTimer  bool
	deadline Value
	fired    bool
	stopped  bool
	vc       map[int]int
}

type chanWaiter struct {
	g    *Goroutine
	v    Value
	done bool
	ok   bool
}

type bad struct{}

func deref(t types.Type) types.Type {
	if p, ok := t.Underlying().(*types.Pointer); ok {
		return p.Elem()
	}
	panic(fmt.Sprintf("deref: not a pointer %v", t))
}

func isInteger(t types.Type) bool {
	b, ok := t.Underlying().(*types.Basic)
	return ok && b.Info()&types.IsInteger != 0
}
func isUnsigned(t types.Type) bool {
	b, ok := t.Underlying().(*types.Basic)
	return ok && b.Info()&types.IsUnsigned != 0
}
func isFloat(t types.Type) bool {
	b, ok := t.Underlying().(*types.Basic)
	return ok && b.Info()&types.IsFloat != 0
}
func isString(t types.Type) bool {
	b, ok := t.Underlying().(*types.Basic)
	return ok && b.Info()&types.IsString != 0
}
func isBool(t types.Type) bool {
	b, ok := t.Underlying().(*types.Basic)
	return ok && b.Info()&types.IsBoolean != 0
}

// intBits returns the width of integer type t and whether it is signed.
func intBits(t types.Type) (bits int, signed bool) {
	b := t.Underlying().(*types.Basic)
	switch b.Kind() {
	case types.Int8:
		return 8, true
	case types.Int16:
		return 16, true
	case types.Int32, types.UntypedRune:
		return 32, true
	case types.Int, types.Int64, types.UntypedInt:
		return 64, true
	case types.Uint8:
		return 8, false
	case types.Uint16:
		return 16, false
	case types.Uint32:
		return 32, false
	case types.Uint, types.Uint64, types.Uintptr:
		return 64, false
	}
	panic(fmt.Sprintf("intBits: %v", t))
}

// wrapInt normalises concrete x to the representation of integer type t.
// Unsigned 64-bit values are kept as their int64 bit pattern.
func wrapInt(t types.Type, x int64) int64 {
	bits, signed := intBits(t)
	switch bits {
	case 8:
		if signed {
			return int64(int8(x))
		}
		return int64(uint8(x))
	case 16:
		if signed {
			return int64(int16(x))
		}
		return int64(uint16(x))
	case 32:
		if signed {
			return int64(int32(x))
		}
		return int64(uint32(x))
	}
	return x
}

func constValue(c *ssa.Const) Value {
	if c.Value == nil {
		return zero(c.Type())
	}
	if t, ok := c.Type().Underlying().(*types.Basic); ok {
		switch {
		case t.Info()&types.IsBoolean != 0:
			return constant.BoolVal(c.Value)
		case t.Info()&types.IsInteger != 0:
			if t.Info()&types.IsUnsigned != 0 {
				return int64(c.Uint64())
			}
			return c.Int64()
		case t.Info()&types.IsFloat != 0:
			return c.Float64()
		case t.Info()&types.IsString != 0:
			if c.Value.Kind() == constant.String {
				return constant.StringVal(c.Value)
			}
			return string(rune(c.Int64()))
		case t.Info()&types.IsComplex != 0:
			return &Opaque{"complex constant"}
		}
	}
	panic(fmt.Sprintf("constValue: %s", c))
}

func zero(t types.Type) Value {
	switch t := t.(type) {
	case *types.Basic:
		if t.Info()&types.IsUntyped != 0 {
			if t.Kind() == types.UntypedNil {
				return nil
			}
			t = types.Default(t).(*types.Basic)
		}
		switch {
		case t.Info()&types.IsBoolean != 0:
			return false
		case t.Info()&types.IsInteger != 0:
			return int64(0)
		case t.Info()&types.IsFloat != 0:
			return float64(0)
		case t.Info()&types.IsString != 0:
			return ""
		case t.Kind() == types.UnsafePointer:
			return (*Value)(nil)
		case t.Info()&types.IsComplex != 0:
			return &Opaque{"complex"}
		}
		panic(fmt.Sprint("zero for unexpected type:", t))
	case *types.Pointer:
		return (*Value)(nil)
	case *types.Array:
		a := make(Array, t.Len())
		for i := range a {
			a[i] = zero(t.Elem())
		}
		return a
	case *types.Named:
		return zero(t.Underlying())
	case *types.Alias:
		return zero(types.Unalias(t))
	case *types.Interface:
		return Iface{}
	case *types.Slice:
		return []Value(nil)
	case *types.Struct:
		s := make(Struct, t.NumFields())
		for i := range s {
			s[i] = zero(t.Field(i).Type())
		}
		return s
	case *types.Tuple:
		if t.Len() == 1 {
			return zero(t.At(0).Type())
		}
		s := make(Tuple, t.Len())
		for i := range s {
			s[i] = zero(t.At(i).Type())
		}
		return s
	case *types.Chan:
		return (*Chan)(nil)
	case *types.Map:
		return (*Map)(nil)
	case *types.Signature:
		return (*ssa.Function)(nil)
	case *types.TypeParam:
		panic("zero of type parameter")
	}
	panic(fmt.Sprint("zero: unexpected ", t))
}

// load reads a value of type T from addr, copying aggregates.
func load(T types.Type, addr *Value) Value {
	switch T := T.Underlying().(type) {
	case *types.Struct:
		v := (*addr).(Struct)
		a := make(Struct, len(v))
		for i := range a {
			a[i] = load(T.Field(i).Type(), &v[i])
		}
		return a
	case *types.Array:
		v := (*addr).(Array)
		a := make(Array, len(v))
		for i := range a {
			a[i] = load(T.Elem(), &v[i])
		}
		return a
	default:
		return *addr
	}
}

func store(T types.Type, addr *Value, v Value) {
	switch T := T.Underlying().(type) {
	case *types.Struct:
		lhs := (*addr).(Struct)
		rhs, ok := v.(Struct)
		if !ok {
			panic(fmt.Sprintf("store: struct expected, got %T", v))
		}
		for i := range lhs {
			store(T.Field(i).Type(), &lhs[i], rhs[i])
		}
	case *types.Array:
		lhs := (*addr).(Array)
		rhs := v.(Array)
		for i := range lhs {
			store(T.Elem(), &lhs[i], rhs[i])
		}
	default:
		*addr = v
	}
}

func copyVal(T types.Type, v Value) Value {
	switch T := T.Underlying().(type) {
	case *types.Struct:
		s := v.(Struct)
		a := make(Struct, len(s))
		for i := range a {
			a[i] = copyVal(T.Field(i).Type(), s[i])
		}
		return a
	case *types.Array:
		s := v.(Array)
		a := make(Array, len(s))
		for i := range a {
			a[i] = copyVal(T.Elem(), s[i])
		}
		return a
	}
	return v
}

func sameType(x, y types.Type) bool {
	if x == nil {
		return y == nil
	}
	return y != nil && types.Identical(x, y)
}

// toString renders a value for diagnostics and samples.
func toString(v Value) string {
	var b bytes.Buffer
	writeValue(&b, v, 0)
	return b.String()
}

func writeValue(buf *bytes.Buffer, v Value, depth int) {
	if depth > 6 {
		buf.WriteString("…")
		return
	}
	switch v := v.(type) {
	case nil:
		buf.WriteString("nil")
	case bool, int64, float64:
		fmt.Fprintf(buf, "%v", v)
	case string:
		fmt.Fprintf(buf, "%q", v)
	case *Term:
		buf.WriteString(v.String())
	case *Map:
		if v == nil {
			buf.WriteString("map(nil)")
			return
		}
		buf.WriteString("map[")
		for i, e := range v.Entries {
			if i > 0 {
				buf.WriteString(" ")
			}
			writeValue(buf, e.K, depth+1)
			buf.WriteString(":")
			writeValue(buf, e.V, depth+1)
		}
		buf.WriteString("]")
	case *Value:
		if v == nil {
			buf.WriteString("<nilptr>")
		} else {
			fmt.Fprintf(buf, "&")
			writeValue(buf, *v, depth+1)
		}
	case Iface:
		if v.T == nil {
			buf.WriteString("nil")
			return
		}
		writeValue(buf, v.V, depth)
	case Struct:
		buf.WriteString("{")
		for i, e := range v {
			if i > 0 {
				buf.WriteString(" ")
			}
			writeValue(buf, e, depth+1)
		}
		buf.WriteString("}")
	case Array:
		buf.WriteString("[")
		for i, e := range v {
			if i > 0 {
				buf.WriteString(" ")
			}
			writeValue(buf, e, depth+1)
		}
		buf.WriteString("]")
	case []Value:
		buf.WriteString("[")
		for i, e := range v {
			if i > 0 {
				buf.WriteString(" ")
			}
			writeValue(buf, e, depth+1)
		}
		buf.WriteString("]")
	case Tuple:
		buf.WriteString("(")
		for i, e := range v {
			if i > 0 {
				buf.WriteString(", ")
			}
			writeValue(buf, e, depth+1)
		}
		buf.WriteString(")")
	case *Opaque:
		buf.WriteString("<opaque:" + v.Why + ">")
	case *ssa.Function:
		if v == nil {
			buf.WriteString("func(nil)")
		} else {
			buf.WriteString(v.String())
		}
	case *SymBytes:
		buf.WriteString("bytes(" + v.S.String() + ")")
	case *JSONBytes:
		buf.WriteString("json(")
		writeValue(buf, v.V, depth+1)
		buf.WriteString(")")
	case *JSONStr:
		buf.WriteString("jsonstr(")
		writeValue(buf, v.V, depth+1)
		buf.WriteString(")")
	default:
		fmt.Fprintf(buf, "<%T>", v)
	}
}

// ---- scalar <-> term helpers ----

func isSym(v Value) bool { _, ok := v.(*Term); return ok }

func boolTerm(v Value) *Term {
	switch v := v.(type) {
	case bool:
		return TBool(v)
	case *Term:
		return v
	}
	panic(fmt.Sprintf("boolTerm: %T", v))
}

func intTerm(v Value) *Term {
	switch v := v.(type) {
	case int64:
		return TInt(v)
	case float64:
		if v == float64(int64(v)) {
			return TInt(int64(v))
		}
		panic(pathEnd{kind: "inconclusive", msg: "non-integral float mixed with symbolic number"})
	case *Term:
		return v
	}
	panic(fmt.Sprintf("intTerm: %T", v))
}

func strTerm(v Value) *Term {
	switch v := v.(type) {
	case string:
		return TStr(v)
	case *Term:
		return v
	}
	panic(fmt.Sprintf("strTerm: %T %v", v, v))
}

// concretize returns the Go value of a constant term, or the term itself.
func simplify(t *Term) Value {
	if t.IsConst() {
		switch t.Sort {
		case SBool:
			return t.B
		case SInt:
			return t.I
		default:
			return t.S
		}
	}
	return t
}

// simplifyFloat is simplify for a term living in a float64 slot.
func simplifyFloat(t *Term) Value {
	if t.IsConst() {
		return float64(t.I)
	}
	return t
}

func sortedKeys(m map[string]interface{}) []string {
	var ks []string
	for k := range m {
		ks = append(ks, k)
	}
	sort.Strings(ks)
	return ks
}
