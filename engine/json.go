package main

// Model of encoding/json: Marshal produces an opaque byte token carrying a
// JSON-normalised deep snapshot; Unmarshal rebuilds Go values from such a snapshot
// (or from concrete JSON text) following field tags and the types' own
// MarshalJSON/UnmarshalJSON methods, which are executed from their SSA.
//
// JSON values ("jv") are kept in Go's natural interface{} form:
//   null -> Iface{}            bool   -> Iface{bool}
//   number -> Iface{float64}   string -> Iface{string}
//   array -> Iface{[]interface{}, []Value}   object -> Iface{map[string]interface{}, *Map}

import (
	"encoding/json"
	"fmt"
	"go/types"
	"reflect"
	"sort"
	"strings"

	"golang.org/x/tools/go/ssa"
)

var (
	tEmptyIface = types.NewInterfaceType(nil, nil).Complete()
	tMapSI      = types.NewMap(types.Typ[types.String], tEmptyIface)
	tSliceI     = types.NewSlice(tEmptyIface)
	tFloat64    = types.Typ[types.Float64]
	tString     = types.Typ[types.String]
	tBool       = types.Typ[types.Bool]
)

func init() {
	reg("encoding/json.Marshal", func(ex *Exec, fr *frame, a []Value) Value {
		jv, err := ex.jsonMarshalAny(fr, a[0])
		if err != nil {
			return Tuple{[]Value(nil), ex.newError("json: " + err.Error())}
		}
		return Tuple{&JSONBytes{jv}, Iface{}}
	})
	reg("encoding/json.MarshalIndent", func(ex *Exec, fr *frame, a []Value) Value {
		jv, err := ex.jsonMarshalAny(fr, a[0])
		if err != nil {
			return Tuple{[]Value(nil), ex.newError("json: " + err.Error())}
		}
		return Tuple{&JSONBytes{jv}, Iface{}}
	})
	reg("encoding/json.Unmarshal", func(ex *Exec, fr *frame, a []Value) Value {
		jv, err := ex.jsonParse(a[0])
		if err != nil {
			return ex.newError("json: " + err.Error())
		}
		tgt, ok := a[1].(Iface)
		if !ok || tgt.T == nil {
			return ex.newError("json: Unmarshal(nil)")
		}
		pt, ok := tgt.T.Underlying().(*types.Pointer)
		if !ok {
			return ex.newError("json: Unmarshal(non-pointer " + tgt.T.String() + ")")
		}
		p := tgt.V.(*Value)
		if p == nil {
			return ex.newError("json: Unmarshal(nil pointer)")
		}
		if err := ex.jsonDecode(fr, jv, p, pt.Elem()); err != nil {
			return ex.newError("json: " + err.Error())
		}
		return Iface{}
	})
}

// jsonParse turns the bytes argument of Unmarshal into a jv.
func (ex *Exec) jsonParse(b Value) (Value, error) {
	switch b := b.(type) {
	case *JSONBytes:
		return ex.deepCopy(b.V), nil
	case []Value:
		bs := make([]byte, len(b))
		for i, x := range b {
			c, ok := x.(int64)
			if !ok {
				ex.inconclusive("json.Unmarshal of bytes with symbolic content")
			}
			bs[i] = byte(c)
		}
		var v interface{}
		if err := json.Unmarshal(bs, &v); err != nil {
			return nil, err
		}
		return goToJV(v), nil
	case *SymBytes:
		if b.S.IsConst() {
			var v interface{}
			if err := json.Unmarshal([]byte(b.S.S), &v); err != nil {
				return nil, err
			}
			return goToJV(v), nil
		}
		ex.inconclusive("json.Unmarshal of a symbolic string (JSON parsing is outside the encodable fragment)")
	case *Opaque:
		ex.inconclusive("json.Unmarshal of opaque bytes: " + b.Why)
	}
	ex.inconclusive(fmt.Sprintf("json.Unmarshal of %T", b))
	return nil, nil
}

func goToJV(v interface{}) Value {
	switch v := v.(type) {
	case nil:
		return Iface{}
	case bool:
		return Iface{T: tBool, V: v}
	case float64:
		return Iface{T: tFloat64, V: v}
	case string:
		return Iface{T: tString, V: v}
	case []interface{}:
		s := make([]Value, len(v))
		for i, e := range v {
			s[i] = goToJV(e)
		}
		return Iface{T: tSliceI, V: s}
	case map[string]interface{}:
		m := &Map{KeyT: tString, ElemT: tEmptyIface}
		ks := make([]string, 0, len(v))
		for k := range v {
			ks = append(ks, k)
		}
		sort.Strings(ks)
		for _, k := range ks {
			m.Entries = append(m.Entries, &MapEntry{K: k, V: goToJV(v[k])})
		}
		return Iface{T: tMapSI, V: m}
	}
	panic(fmt.Sprintf("goToJV %T", v))
}

// jvToGo converts a fully concrete jv into Go values (nil,false if symbolic).
func jvToGo(v Value) (interface{}, bool) {
	it, ok := v.(Iface)
	if !ok {
		return nil, false
	}
	if it.T == nil {
		return nil, true
	}
	switch x := it.V.(type) {
	case bool, float64, string:
		return x, true
	case []Value:
		out := make([]interface{}, len(x))
		for i, e := range x {
			g, ok := jvToGo(e)
			if !ok {
				return nil, false
			}
			out[i] = g
		}
		return out, true
	case *Map:
		out := map[string]interface{}{}
		for _, e := range x.Entries {
			k, ok := e.K.(string)
			if !ok {
				return nil, false
			}
			g, ok := jvToGo(e.V)
			if !ok {
				return nil, false
			}
			out[k] = g
		}
		return out, true
	}
	return nil, false
}

func (ex *Exec) findMethod(T types.Type, name string) *ssa.Function {
	ms := ex.w.prog.MethodSets.MethodSet(T)
	sel := ms.Lookup(nil, name)
	if sel == nil {
		// unexported lookups need the package; exported names are enough here
		return nil
	}
	return ex.w.prog.MethodValue(sel)
}

func (ex *Exec) jsonMarshalAny(fr *frame, v Value) (Value, error) {
	it, ok := v.(Iface)
	if !ok {
		if o, isO := v.(*Opaque); isO {
			ex.inconclusive("json.Marshal of opaque: " + o.Why)
		}
		panic(fmt.Sprintf("json.Marshal arg %T", v))
	}
	if it.T == nil {
		return Iface{}, nil
	}
	return ex.jsonEncode(fr, it.V, it.T)
}

func isEmptyJSONValue(v Value, T types.Type) bool {
	switch x := v.(type) {
	case bool:
		return !x
	case int64:
		return x == 0
	case float64:
		return x == 0
	case string:
		return x == ""
	case *Value:
		return x == nil
	case []Value:
		return len(x) == 0
	case *Map:
		return x == nil || len(x.Entries) == 0
	case Iface:
		return x.T == nil
	}
	return false
}

type jsonField struct {
	idx       int
	name      string
	omitempty bool
	typ       types.Type
}

func jsonFields(st *types.Struct) []jsonField {
	var out []jsonField
	for i := 0; i < st.NumFields(); i++ {
		f := st.Field(i)
		if !f.Exported() {
			continue
		}
		tag := reflect.StructTag(st.Tag(i)).Get("json")
		if tag == "-" {
			continue
		}
		name := f.Name()
		omit := false
		if tag != "" {
			parts := strings.Split(tag, ",")
			if parts[0] != "" {
				name = parts[0]
			}
			for _, p := range parts[1:] {
				if p == "omitempty" {
					omit = true
				}
			}
		}
		if f.Embedded() && tag == "" {
			continue // embedded structs (sync.Mutex etc.) carry no JSON here
		}
		out = append(out, jsonField{i, name, omit, f.Type()})
	}
	return out
}

// jsonEncode returns the jv of v (static/dynamic type T).
func (ex *Exec) jsonEncode(fr *frame, v Value, T types.Type) (Value, error) {
	if o, ok := v.(*Opaque); ok {
		ex.inconclusive("json.Marshal of opaque: " + o.Why)
	}
	// custom marshaller on T or *T
	if _, isIface := T.Underlying().(*types.Interface); !isIface {
		if fn := ex.findMethod(T, "MarshalJSON"); fn != nil {
			if p, isPtr := v.(*Value); isPtr && p == nil {
				return Iface{}, nil
			}
			return ex.callMarshaler(fr, fn, v)
		}
		if _, isPtr := T.Underlying().(*types.Pointer); !isPtr {
			if fn := ex.findMethod(types.NewPointer(T), "MarshalJSON"); fn != nil {
				// json only uses pointer-receiver marshalers for addressable values;
				// rulio always marshals through pointers for such types
				cell := v
				return ex.callMarshaler(fr, fn, &cell)
			}
		}
	}
	switch U := T.Underlying().(type) {
	case *types.Interface:
		it := v.(Iface)
		if it.T == nil {
			return Iface{}, nil
		}
		return ex.jsonEncode(fr, it.V, it.T)
	case *types.Pointer:
		p := v.(*Value)
		if p == nil {
			return Iface{}, nil
		}
		return ex.jsonEncode(fr, load(U.Elem(), p), U.Elem())
	case *types.Basic:
		switch {
		case U.Info()&types.IsBoolean != 0:
			return Iface{T: tBool, V: v}, nil
		case U.Info()&types.IsString != 0:
			// (a string that holds the text of a JSON token stays that token)
			return Iface{T: tString, V: v}, nil
		case U.Info()&types.IsInteger != 0:
			switch x := v.(type) {
			case int64:
				if U.Info()&types.IsUnsigned != 0 {
					return Iface{T: tFloat64, V: float64(uint64(x))}, nil
				}
				return Iface{T: tFloat64, V: float64(x)}, nil
			case *Term:
				return Iface{T: tFloat64, V: x}, nil
			}
		case U.Info()&types.IsFloat != 0:
			return Iface{T: tFloat64, V: v}, nil
		}
	case *types.Slice:
		switch xs := v.(type) {
		case []Value:
			if xs == nil {
				return Iface{}, nil
			}
			if b, ok := U.Elem().Underlying().(*types.Basic); ok && b.Kind() == types.Uint8 {
				ex.inconclusive("json.Marshal of []byte (base64) not modelled")
			}
			out := make([]Value, len(xs))
			for i, e := range xs {
				j, err := ex.jsonEncode(fr, e, U.Elem())
				if err != nil {
					return nil, err
				}
				out[i] = j
			}
			return Iface{T: tSliceI, V: out}, nil
		default:
			ex.inconclusive(fmt.Sprintf("json.Marshal of byte token %T", v))
		}
	case *types.Array:
		xs := v.(Array)
		out := make([]Value, len(xs))
		for i, e := range xs {
			j, err := ex.jsonEncode(fr, e, U.Elem())
			if err != nil {
				return nil, err
			}
			out[i] = j
		}
		return Iface{T: tSliceI, V: out}, nil
	case *types.Map:
		m := v.(*Map)
		if m == nil {
			return Iface{}, nil
		}
		if !isString(U.Key()) {
			return nil, fmt.Errorf("unsupported type: %s", T)
		}
		out := &Map{KeyT: tString, ElemT: tEmptyIface}
		for _, e := range m.Entries {
			j, err := ex.jsonEncode(fr, e.V, U.Elem())
			if err != nil {
				return nil, err
			}
			out.Entries = append(out.Entries, &MapEntry{K: e.K, V: j})
		}
		return Iface{T: tMapSI, V: out}, nil
	case *types.Struct:
		s := v.(Struct)
		out := &Map{KeyT: tString, ElemT: tEmptyIface}
		for _, f := range jsonFields(U) {
			fv := s[f.idx]
			if f.omitempty && isEmptyJSONValue(fv, f.typ) {
				continue
			}
			j, err := ex.jsonEncode(fr, fv, f.typ)
			if err != nil {
				return nil, err
			}
			out.Entries = append(out.Entries, &MapEntry{K: f.name, V: j})
		}
		return Iface{T: tMapSI, V: out}, nil
	case *types.Signature, *types.Chan:
		return nil, fmt.Errorf("unsupported type: %s", T)
	}
	ex.inconclusive(fmt.Sprintf("json.Marshal: unsupported %s (%T)", T, v))
	return nil, nil
}

func (ex *Exec) callMarshaler(fr *frame, fn *ssa.Function, recv Value) (Value, error) {
	res := ex.call(fr, 0, fn, []Value{recv})
	if o, ok := res.(*Opaque); ok {
		ex.inconclusive("MarshalJSON returned opaque: " + o.Why)
	}
	tup := res.(Tuple)
	if e := tup[1].(Iface); e.T != nil {
		return nil, fmt.Errorf("MarshalJSON error")
	}
	switch b := tup[0].(type) {
	case *JSONBytes:
		return b.V, nil
	case []Value:
		return ex.jsonParse(b)
	}
	ex.inconclusive(fmt.Sprintf("MarshalJSON returned %T", tup[0]))
	return nil, nil
}

// jsonDecode stores jv into *p of type T following encoding/json's rules.
func (ex *Exec) jsonDecode(fr *frame, jv Value, p *Value, T types.Type) error {
	it := jv.(Iface)
	// custom unmarshaler on *T
	if _, isIface := T.Underlying().(*types.Interface); !isIface {
		if _, isPtr := T.Underlying().(*types.Pointer); !isPtr {
			if fn := ex.findMethod(types.NewPointer(T), "UnmarshalJSON"); fn != nil {
				if it.T == nil {
					// json skips UnmarshalJSON for null only for pointers; value
					// receivers still get "null"
				}
				res := ex.call(fr, 0, fn, []Value{p, &JSONBytes{jv}})
				if o, ok := res.(*Opaque); ok {
					ex.inconclusive("UnmarshalJSON returned opaque: " + o.Why)
				}
				if e := res.(Iface); e.T != nil {
					return fmt.Errorf("UnmarshalJSON of %s failed", T)
				}
				return nil
			}
		}
	}
	switch U := T.Underlying().(type) {
	case *types.Interface:
		if U.NumMethods() != 0 {
			return fmt.Errorf("cannot unmarshal into non-empty interface %s", T)
		}
		*p = ex.deepCopy(jv)
		return nil
	case *types.Pointer:
		if it.T == nil {
			*p = (*Value)(nil)
			return nil
		}
		cur := (*p).(*Value)
		if cur == nil {
			cell := zero(U.Elem())
			cur = &cell
			*p = cur
		}
		return ex.jsonDecode(fr, jv, cur, U.Elem())
	}
	if it.T == nil {
		return nil // null leaves the target unchanged
	}
	mismatch := func() error {
		return fmt.Errorf("cannot unmarshal %s into Go value of type %s", jvKind(it), T)
	}
	switch U := T.Underlying().(type) {
	case *types.Basic:
		switch {
		case U.Info()&types.IsBoolean != 0:
			if !types.Identical(it.T, tBool) {
				return mismatch()
			}
			*p = it.V
		case U.Info()&types.IsString != 0:
			if !types.Identical(it.T, tString) {
				return mismatch()
			}
			*p = it.V
		case U.Info()&types.IsFloat != 0:
			if !types.Identical(it.T, tFloat64) {
				return mismatch()
			}
			*p = it.V
		case U.Info()&types.IsInteger != 0:
			if !types.Identical(it.T, tFloat64) {
				return mismatch()
			}
			switch x := it.V.(type) {
			case float64:
				if x != float64(int64(x)) {
					return mismatch()
				}
				*p = wrapInt(T, int64(x))
			case *Term:
				*p = ex.normInt(T, x)
			}
		default:
			return mismatch()
		}
		return nil
	case *types.Slice:
		xs, ok := it.V.([]Value)
		if !ok || !types.Identical(it.T, tSliceI) {
			return mismatch()
		}
		out := make([]Value, len(xs))
		for i := range xs {
			out[i] = zero(U.Elem())
			if err := ex.jsonDecode(fr, xs[i], &out[i], U.Elem()); err != nil {
				return err
			}
		}
		*p = out
		return nil
	case *types.Map:
		m, ok := it.V.(*Map)
		if !ok {
			return mismatch()
		}
		if !isString(U.Key()) {
			return mismatch()
		}
		cur, _ := (*p).(*Map)
		if cur == nil {
			cur = &Map{KeyT: U.Key(), ElemT: U.Elem()}
			*p = cur
		}
		for _, e := range m.Entries {
			cell := zero(U.Elem())
			if err := ex.jsonDecode(fr, e.V, &cell, U.Elem()); err != nil {
				return err
			}
			ex.mapUpdate(fr, cur, e.K, cell)
		}
		return nil
	case *types.Struct:
		m, ok := it.V.(*Map)
		if !ok {
			return mismatch()
		}
		s := (*p).(Struct)
		fields := jsonFields(U)
		for _, e := range m.Entries {
			// keys are matched case-insensitively like encoding/json does
			for _, f := range fields {
				var hit bool
				switch k := e.K.(type) {
				case string:
					hit = strings.EqualFold(k, f.name)
				case *Term:
					// exact match decided by the solver (case folding of symbolic
					// keys is outside the bound)
					hit = ex.branchV(TEq(k, TStr(f.name)))
				}
				if hit {
					if err := ex.jsonDecode(fr, e.V, &s[f.idx], f.typ); err != nil {
						return err
					}
					break
				}
			}
		}
		return nil
	}
	ex.inconclusive(fmt.Sprintf("json.Unmarshal into unsupported type %s", T))
	return nil
}

func jvKind(it Iface) string {
	switch {
	case it.T == nil:
		return "null"
	case types.Identical(it.T, tBool):
		return "bool"
	case types.Identical(it.T, tFloat64):
		return "number"
	case types.Identical(it.T, tString):
		return "string"
	case types.Identical(it.T, tSliceI):
		return "array"
	}
	return "object"
}
