package main

// The check driver: `gosym check <ID> [--tier quick|thorough]`.

import (
	"encoding/json"
	"flag"
	"fmt"
	"os"
	"path/filepath"
	"reflect"
	"sort"
	"strconv"
	"strings"
	"sync"
	"time"
)

type JobCfg struct {
	Permute    []string `json:"permute,omitempty"`
	Conc       bool     `json:"conc,omitempty"`
	Preempt    int      `json:"preempt,omitempty"`
	MaxLoop    int      `json:"maxloop,omitempty"`
	MaxDepth   int      `json:"maxdepth,omitempty"`
	MaxPaths   int      `json:"maxpaths,omitempty"`
	StrMaxLen  int      `json:"strmaxlen,omitempty"`
	TimeoutS   int      `json:"timeout_s,omitempty"`
	ReplayRace bool     `json:"replay_race,omitempty"`
	StrOrder   string   `json:"strorder,omitempty"`
}

type JobDef struct {
	Harness string    `json:"harness"`
	Params  [][]int64 `json:"params"` // per parameter [lo,hi] inclusive
	Sets    [][]int64 `json:"sets"`   // alternative: per parameter an explicit value set
	Tier    string    `json:"tier"`   // quick | thorough | both
	Cfg     JobCfg    `json:"cfg"`
	Note    string    `json:"note,omitempty"`
	// MayBeVacuous: some parameter tuples are expected to have no complete path
	MayBeVacuous bool `json:"may_be_vacuous,omitempty"`
	// ReplaySamples: how many passing samples of this job definition are replayed natively (default 2)
	ReplaySamples int `json:"replay_samples,omitempty"`
	// MaxSum/SumFrom: keep only the parameter tuples whose entries from index SumFrom on
	// add up to at most MaxSum (used where a parameter counts parents, items, ...)
	MaxSum  int64 `json:"max_sum,omitempty"`
	SumFrom int   `json:"sum_from,omitempty"`
	// Cross: decide this job a second time with the check's cross_solver and compare
	Cross bool `json:"cross,omitempty"`
}

type CheckDef struct {
	Property    string   `json:"property"`
	Title       string   `json:"title"`
	Jobs        []JobDef `json:"jobs"`
	Bounds      []string `json:"bounds"`
	Assumptions []string `json:"assumptions"`
	Outside     []string `json:"outside_claim"`
	Units       []string `json:"units"`
	// CrossSolver: second solver for the jobs marked "cross" (z3-new | cvc5)
	CrossSolver string `json:"cross_solver,omitempty"`
}

type KnownFinding struct {
	Status   string `json:"status"` // open | fixed
	Property string `json:"property"`
	Harness  string `json:"harness"`
	Label    string `json:"label"`
	Text     string `json:"text"`
	Commit   string `json:"commit,omitempty"`
}

func expandParams(ranges [][]int64) [][]int64 {
	out := [][]int64{{}}
	for _, r := range ranges {
		var next [][]int64
		lo, hi := r[0], r[0]
		if len(r) > 1 {
			hi = r[1]
		}
		for _, p := range out {
			for v := lo; v <= hi; v++ {
				q := append(append([]int64{}, p...), v)
				next = append(next, q)
			}
		}
		out = next
	}
	return out
}

func expandSets(sets [][]int64) [][]int64 {
	out := [][]int64{{}}
	for _, set := range sets {
		var next [][]int64
		for _, p := range out {
			for _, v := range set {
				next = append(next, append(append([]int64{}, p...), v))
			}
		}
		out = next
	}
	return out
}

type jobItem struct {
	def  *JobDef
	spec JobSpec
}

func cfgFor(def *JobDef, solver string) *Config {
	c := defaultConfig()
	c.Solver = solver
	jc := def.Cfg
	if len(jc.Permute) > 0 {
		c.PermuteMaps = true
		for _, f := range jc.Permute {
			c.permuteSet[f] = true
		}
	}
	c.Concurrent = jc.Conc
	c.StrOrder = jc.StrOrder
	if jc.Preempt > 0 {
		c.Preempt = jc.Preempt
	}
	if jc.MaxLoop > 0 {
		c.MaxLoop = jc.MaxLoop
	}
	if jc.MaxDepth > 0 {
		c.MaxDepth = jc.MaxDepth
	}
	if jc.MaxPaths > 0 {
		c.MaxPaths = jc.MaxPaths
	}
	if jc.StrMaxLen > 0 {
		c.StrMaxLen = jc.StrMaxLen
	}
	if jc.TimeoutS > 0 {
		c.JobTimeout = time.Duration(jc.TimeoutS) * time.Second
	}
	return c
}

func cmdCheck(args []string) int {
	fs := flag.NewFlagSet("check", flag.ExitOnError)
	repo := fs.String("repo", envOr("VERIF_REPO", "/repo"), "repository")
	vdir := fs.String("verif", envOr("VERIF_DIR", "/verif"), "verification dir")
	tier := fs.String("tier", envOr("VERIF_TIER", "quick"), "quick|thorough")
	workers := fs.Int("workers", 16, "parallel workers")
	solver := fs.String("solver", "z3", "primary solver")
	only := fs.String("only", "", "run only jobs whose harness contains this substring")
	noReplaySamples := fs.Bool("no-sample-replay", false, "skip native replay of passing samples")
	fs.Parse(args)
	if fs.NArg() < 1 {
		fmt.Fprintln(os.Stderr, "check: property id required")
		return 2
	}
	id := fs.Arg(0)
	t0 := time.Now()
	seed, _ := strconv.Atoi(envOr("VERIF_SEED", "0"))
	hdir := filepath.Join(*vdir, "harness")

	var def CheckDef
	b, err := os.ReadFile(filepath.Join(*vdir, "checks", id+".json"))
	if err != nil {
		fmt.Fprintln(os.Stderr, "check definition:", err)
		return 2
	}
	if err := json.Unmarshal(b, &def); err != nil {
		fmt.Fprintln(os.Stderr, "check definition:", err)
		return 2
	}
	var known []KnownFinding
	if kb, err := os.ReadFile(filepath.Join(*vdir, "known_findings.json")); err == nil {
		json.Unmarshal(kb, &known)
	}

	ov, err := buildOverlay(*repo, hdir)
	if err != nil {
		fmt.Fprintln(os.Stderr, "overlay:", err)
		return 2
	}
	prog, err := LoadProgram(*repo, []string{"core", "cron", "sys", "service"}, ov, "")
	if err != nil {
		fmt.Printf("INCONCLUSIVE property=%s cannot load/compile harness against the current tree: %v\n", id, err)
		return 2
	}

	// expand jobs
	var items []jobItem
	for i := range def.Jobs {
		jd := &def.Jobs[i]
		if *tier == "quick" && jd.Tier == "thorough" {
			continue
		}
		if *tier == "thorough" && jd.Tier == "quick" {
			continue
		}
		if *tier == "thorough" && os.Getenv("VERIF_THOROUGH_ONLY") != "" && jd.Tier != "thorough" {
			// development aid: only the jobs the thorough tier adds to the quick one
			continue
		}
		if *only != "" && !strings.Contains(jd.Harness, *only) {
			continue
		}
		tuples := expandParams(jd.Params)
		if len(jd.Sets) > 0 {
			tuples = expandSets(jd.Sets)
		}
		if jd.MaxSum > 0 {
			// keep the tuples whose parameters from position SumFrom on add up to at most MaxSum
			var kept [][]int64
			for _, t := range tuples {
				sum := int64(0)
				for k := jd.SumFrom; k < len(t); k++ {
					sum += t[k]
				}
				if sum <= jd.MaxSum {
					kept = append(kept, t)
				}
			}
			tuples = kept
		}
		for _, p := range tuples {
			items = append(items, jobItem{def: jd, spec: JobSpec{Harness: jd.Harness, Params: p}})
		}
	}
	if len(items) == 0 {
		fmt.Fprintln(os.Stderr, "no jobs for tier", *tier)
		return 2
	}

	// run
	var totQueries, totSat, totUnsat, totUnknown int
	var solverTime time.Duration
	var solverErrors []string
	runAll := func(solverName string, only func(*JobDef) bool) []*JobResult {
		results := make([]*JobResult, len(items))
		var next int
		var mu sync.Mutex
		var wg sync.WaitGroup
		nw := *workers
		if nw > len(items) {
			nw = len(items)
		}
		for wi := 0; wi < nw; wi++ {
			wg.Add(1)
			go func(wi int) {
				defer wg.Done()
				var w *Worker
				var curDef *JobDef
				flush := func() {
					if w != nil {
						mu.Lock()
						totQueries += w.solver.Queries
						totSat += w.solver.NSat
						totUnsat += w.solver.NUnsat
						totUnknown += w.solver.NUnknown
						solverTime += w.solver.Time
						solverErrors = append(solverErrors, w.solver.Errors...)
						mu.Unlock()
						w.solver.Close()
						w = nil
					}
				}
				defer flush()
				for {
					mu.Lock()
					i := next
					next++
					mu.Unlock()
					if i >= len(items) {
						return
					}
					it := items[i]
					if only != nil && !only(it.def) {
						continue
					}
					if w == nil || curDef != it.def {
						flush()
						var err error
						w, err = NewWorker(prog, wi, cfgFor(it.def, solverName))
						if err != nil {
							results[i] = &JobResult{Spec: it.spec, Inconclusive: map[string]int{"solver start failed: " + err.Error(): 1}}
							continue
						}
						curDef = it.def
					}
					results[i] = w.runJob(it.spec)
				}
			}(wi)
		}
		wg.Wait()
		return results
	}
	results := runAll(*solver, nil)
	mainQueries, mainSat, mainUnsat, mainUnknown := totQueries, totSat, totUnsat, totUnknown

	// second opinion: the jobs marked "cross" are decided again with another solver and the
	// verdicts compared job by job (paths, infeasible prunings, assertions discharged,
	// violations); a disagreement is reported as undecided
	crossInfo := map[string]interface{}{}
	var crossDisagree []string
	if cs := def.CrossSolver; cs != "" && cs != *solver {
		t0 := time.Now()
		res2 := runAll(cs, func(d *JobDef) bool { return d.Cross })
		n := 0
		for i, r2 := range res2 {
			r1 := results[i]
			if r2 == nil || r1 == nil {
				continue
			}
			n++
			same := r1.Paths == r2.Paths && r1.PathsDone == r2.PathsDone && r1.Infeasible == r2.Infeasible &&
				fmt.Sprint(r1.AssertChecked) == fmt.Sprint(r2.AssertChecked) && fmt.Sprint(r1.ViolationCount) == fmt.Sprint(r2.ViolationCount) &&
				fmt.Sprint(r1.Inconclusive) == fmt.Sprint(r2.Inconclusive)
			if !same {
				crossDisagree = append(crossDisagree, fmt.Sprintf("%s%v: %s paths=%d done=%d infeasible=%d unsat=%v viol=%v inconclusive=%v / %s paths=%d done=%d infeasible=%d unsat=%v viol=%v inconclusive=%v",
					r1.Spec.Harness, r1.Spec.Params, *solver, r1.Paths, r1.PathsDone, r1.Infeasible, r1.AssertChecked, r1.ViolationCount, r1.Inconclusive,
					cs, r2.Paths, r2.PathsDone, r2.Infeasible, r2.AssertChecked, r2.ViolationCount, r2.Inconclusive))
			}
		}
		crossInfo = map[string]interface{}{"solver": cs, "jobs_compared": n, "disagreements": crossDisagree, "wall_s": time.Since(t0).Seconds(),
			"queries": totQueries - mainQueries, "sat": totSat - mainSat, "unsat": totUnsat - mainUnsat, "unknown": totUnknown - mainUnknown}
		totQueries, totSat, totUnsat, totUnknown = mainQueries, mainSat, mainUnsat, mainUnknown
	}

	// aggregate
	type agg struct {
		paths, done, decisions, infeasible int
		steps                              int64
		checked, trivial                   int
	}
	var A agg
	inconc := map[string]int{}
	for _, d := range crossDisagree {
		inconc["solver disagreement: "+d] = 1
	}
	var violations []*Violation
	var samples []map[string]interface{}
	vacuous := []string{}
	perHarness := map[string]map[string]int{}
	samplesPerHarness := map[string]int{}
	replayWanted := map[string]int{}
	type slowJob struct {
		Job    string  `json:"job"`
		WallS  float64 `json:"wall_s"`
		Paths  int     `json:"paths"`
		CapHit bool    `json:"time_box_or_cap_hit,omitempty"`
	}
	var slow []slowJob
	for i, r := range results {
		if r == nil {
			continue
		}
		slow = append(slow, slowJob{fmt.Sprintf("%s%v", r.Spec.Harness, r.Spec.Params), r.Wall.Seconds(), r.Paths, r.CapHit})
		A.paths += r.Paths
		A.done += r.PathsDone
		A.decisions += r.Decisions
		A.infeasible += r.Infeasible
		A.steps += r.Steps
		ph := perHarness[r.Spec.Harness]
		if ph == nil {
			ph = map[string]int{}
			perHarness[r.Spec.Harness] = ph
		}
		ph["jobs"]++
		ph["paths"] += r.Paths
		ph["paths_done"] += r.PathsDone
		for l, n := range r.AssertChecked {
			A.checked += n
			ph["assert_unsat:"+l] += n
		}
		for l, n := range r.AssertTrivial {
			A.trivial += n
			ph["assert_trivial:"+l] += n
		}
		for l, n := range r.Reached {
			ph["reach:"+l] += n
		}
		for k, n := range r.Inconclusive {
			inconc[r.Spec.Harness+fmt.Sprint(r.Spec.Params)+": "+k] += n
		}
		violations = append(violations, r.Violations...)
		if r.PathsDone == 0 && len(r.Violations) == 0 && len(r.Inconclusive) == 0 && !items[i].def.MayBeVacuous {
			vacuous = append(vacuous, fmt.Sprintf("%s%v", r.Spec.Harness, r.Spec.Params))
		}
		for si, s := range r.Samples {
			// keep the first sample of up to 4 jobs per harness, so that the natively
			// replayed samples span the harnesses of the check
			if si == 0 && samplesPerHarness[r.Spec.Harness] < max(4, items[i].def.ReplaySamples) && len(samples) < 48 {
				samplesPerHarness[r.Spec.Harness]++
				samples = append(samples, map[string]interface{}{"harness": r.Spec.Harness, "params": r.Spec.Params, "witness_inputs": s})
				if items[i].def.ReplaySamples > replayWanted[r.Spec.Harness] {
					replayWanted[r.Spec.Harness] = items[i].def.ReplaySamples
				}
			}
		}
	}

	// replay
	needRace := false
	for _, it := range items {
		if it.def.Cfg.ReplayRace {
			needRace = true
		}
	}
	rp, err := NewReplayer(*repo, hdir, needRace)
	if err != nil {
		fmt.Fprintln(os.Stderr, "replayer:", err)
		return 2
	}
	defer rp.Close()
	replayDir := filepath.Join(*vdir, "replays", id)
	os.RemoveAll(replayDir)
	os.MkdirAll(replayDir, 0o755)

	tracesValidated := 0
	discrepancies := []string{}
	exit := 0
	var outLines []string
	knownSeen := map[int]bool{}
	nViol := 0
	seenVL := map[string]int{}
	skippedReplays := 0
	const maxReplaysPerLabel = 16
	// select the counterexamples to replay (one per job and label, capped per label)
	type rjob struct {
		v    *Violation
		file string
		rr   *ReplayResult
		err  error
	}
	var rjobs []*rjob
	for n, v := range violations {
		key := fmt.Sprintf("%s|%v|%s", v.Harness, v.Params, v.Label)
		seenVL[key]++
		if seenVL[key] > 1 {
			continue
		}
		hl := v.Harness + "|" + v.Label
		seenVL[hl]++
		if seenVL[hl] > maxReplaysPerLabel {
			skippedReplays++
			continue
		}
		file := filepath.Join(replayDir, fmt.Sprintf("%s_%s_%d.json", strings.ReplaceAll(v.Harness, ".", "_"), sanitize(v.Label), n))
		v.ReplayPath = file
		if err := writeAssignment(file, v); err != nil {
			fmt.Fprintln(os.Stderr, "write replay:", err)
			continue
		}
		rjobs = append(rjobs, &rjob{v: v, file: file})
	}
	// replay natively, a few at a time (a counterexample that leaves a lock held or
	// overflows the stack takes its whole time-out)
	{
		sem := make(chan struct{}, 6)
		var rwg sync.WaitGroup
		for _, rj := range rjobs {
			rwg.Add(1)
			go func(rj *rjob) {
				defer rwg.Done()
				sem <- struct{}{}
				defer func() { <-sem }()
				to := 30 * time.Second
				if rj.v.Kind == "deadlock" || rj.v.Kind == "depth-cap" || rj.v.Kind == "loop-cap" {
					to = 20 * time.Second
				}
				rr, err := rp.Run(rj.v, rj.file, to)
				if err == nil {
					rj.v.Reproduced = reproduced(rj.v, rr)
					// Go randomises map iteration; the engine explores one order (or the
					// permuted ones): give order-dependent counterexamples more native runs
					for try := 0; !rj.v.Reproduced && try < 12 && !rr.TimedOut; try++ {
						rr, err = rp.Run(rj.v, rj.file, to)
						if err != nil {
							break
						}
						rj.v.Reproduced = reproduced(rj.v, rr)
					}
				}
				rj.rr, rj.err = rr, err
			}(rj)
		}
		rwg.Wait()
	}
	for _, rj := range rjobs {
		v, file := rj.v, rj.file
		if rj.err != nil || rj.rr == nil {
			msg := "replay failed"
			if rj.err != nil {
				msg = firstLine(rj.err.Error())
			}
			inconc["replay build failed: "+msg]++
			continue
		}
		v.ReplayOut = tail(rj.rr.Out, 1500)
		writeAssignment(file, v)
		if !v.Reproduced {
			discrepancies = append(discrepancies, fmt.Sprintf("%s%v label=%s kind=%s: model did not reproduce natively", v.Harness, v.Params, v.Label, v.Kind))
			inconc[fmt.Sprintf("%s: counterexample for %q did not reproduce natively (engine/stub discrepancy)", v.Harness, v.Label)]++
			continue
		}
		tracesValidated++
		// known finding?
		isKnown := false
		for ki, k := range known {
			if k.Status == "open" && k.Property == id && k.Harness == v.Harness && k.Label == v.Label {
				isKnown = true
				if !knownSeen[ki] {
					knownSeen[ki] = true
					outLines = append(outLines, fmt.Sprintf("KNOWN-FINDING: property=%s %s [witness %s label=%s replay=%s]", id, k.Text, v.Harness, v.Label, file))
				}
			}
		}
		if !isKnown {
			nViol++
			exit = 1
			outLines = append(outLines, fmt.Sprintf("VIOLATION property=%s replay=%s", id, file))
			outLines = append(outLines, fmt.Sprintf("  harness=%s params=%v label=%s kind=%s %s inputs=%s", v.Harness, v.Params, v.Label, v.Kind, v.Msg, compactJSON(v.Inputs)))
		}
	}

	// translator validation: passing samples must also pass natively
	if !*noReplaySamples {
		cnt := 0
		replayedPerHarness := map[string]int{}
		for _, s := range samples {
			h := s["harness"].(string)
			if cnt >= 10 && replayWanted[h] == 0 {
				continue
			}
			if replayedPerHarness[h] >= max(2, replayWanted[h]) {
				continue
			}
			replayedPerHarness[h]++
			wi := s["witness_inputs"].(map[string]interface{})
			v := &Violation{Harness: h, Params: s["params"].([]int64), Label: "__sample", Kind: "sample", Inputs: map[string]interface{}{}}
			for k, x := range wi {
				if k == "__choices" {
					var cs []int64
					for _, f := range strings.Fields(strings.Trim(x.(string), "[]")) {
						n, _ := strconv.ParseInt(f, 10, 64)
						cs = append(cs, n)
					}
					v.Choices = cs
				} else {
					v.Inputs[k] = x
				}
			}
			if v.Choices == nil {
				v.Choices = []int64{}
			}
			file := filepath.Join(rp.tmp, fmt.Sprintf("sample_%d.json", cnt))
			writeAssignment(file, v)
			rr, err := rp.Run(v, file, 60*time.Second)
			cnt++
			if err != nil {
				inconc["sample replay build failed: "+firstLine(err.Error())]++
				break
			}
			if rr.Done && len(rr.Failed) == 0 && !rr.Panicked {
				tracesValidated++
				s["native_replay"] = "agrees (completed, no assertion failed)"
			} else {
				s["native_replay"] = "DISAGREES: " + tail(rr.Out, 600)
				discrepancies = append(discrepancies, fmt.Sprintf("sample of %s%v passes in the engine but natively: failed=%v panicked=%v done=%v", h, v.Params, rr.Failed, rr.Panicked, rr.Done))
				inconc[fmt.Sprintf("%s: engine/native disagreement on a passing sample", h)]++
			}
		}
	}

	for _, l := range outLines {
		fmt.Println(l)
	}
	var inconcKeys []string
	for k := range inconc {
		inconcKeys = append(inconcKeys, k)
	}
	sort.Strings(inconcKeys)
	for i, k := range inconcKeys {
		if i < 40 {
			fmt.Printf("INCONCLUSIVE property=%s %s (x%d)\n", id, firstLine(k), inconc[k])
		}
	}
	for _, v := range vacuous {
		fmt.Printf("BROKEN-HARNESS property=%s job %s reached no end state and no finding (vacuous)\n", id, v)
	}
	for _, e := range solverErrors {
		fmt.Printf("SOLVER-ERROR %s\n", firstLine(e))
	}

	wall := time.Since(t0).Seconds()
	states := A.done + len(violations)
	if states < 1 {
		states = 1
	}
	trans := A.decisions
	if trans < 1 {
		trans = 1
	}
	if len(samples) == 0 {
		samples = append(samples, map[string]interface{}{"note": "no complete path produced a sample"})
	}
	ev := map[string]interface{}{
		"property_id": id,
		"tier":        *tier,
		"seed":        seed,
		"level":       "model_checking",
		"wall_s":      wall,
		"violations":  nViol,
		"assumptions": append(append([]string{}, def.Assumptions...), "bounded: "+strings.Join(def.Bounds, "; ")),
		"coverage": map[string]interface{}{
			"states":                        states,
			"transitions":                   trans,
			"traces_validated_against_impl": tracesValidated,
			"samples":                       samples,
			"exhaustive":                    len(inconc) == 0,
			"technique":                     "bounded symbolic execution of go/ssa of the current tree; SMT (z3) decides every assertion and branch",
			"slowest_jobs":                  slowest(slow),
			"second_solver":                 crossInfo,
			"functions_encoded":             filterFns(prog.encodedFunctions()),
			"units":                         def.Units,
			"bounds":                        def.Bounds,
			"outside_claim":                 def.Outside,
			"jobs":                          len(items),
			"symbolic_paths":                A.paths,
			"paths_completed":               A.done,
			"paths_pruned_infeasible":       A.infeasible,
			"instructions_interpreted":      A.steps,
			"queries": map[string]interface{}{
				"total": totQueries, "sat": totSat, "unsat": totUnsat, "unknown": totUnknown,
				"assertions_discharged_unsat": A.checked, "assertions_syntactically_true": A.trivial,
			},
			"solver":                                *solver,
			"solver_s":                              solverTime.Seconds(),
			"load_s":                                prog.loadTime.Seconds(),
			"replay_build_s":                        rp.BuildTime.Seconds(),
			"stubs_hit":                             prog.stubsSeen,
			"opaque_calls":                          prog.opaqueSeen,
			"per_harness":                           perHarness,
			"inconclusive":                          inconc,
			"vacuous_jobs":                          vacuous,
			"discrepancies":                         discrepancies,
			"known_findings":                        knownLines(outLines),
			"violation_count":                       len(violations),
			"counterexamples_not_replayed_over_cap": skippedReplays,
		},
	}
	os.MkdirAll(filepath.Join(*vdir, "evidence"), 0o755)
	eb, _ := json.MarshalIndent(ev, "", " ")
	os.WriteFile(filepath.Join(*vdir, "evidence", id+".json"), eb, 0o644)
	fmt.Printf("property=%s tier=%s jobs=%d paths=%d completed=%d queries=%d (unsat %d, sat %d, unknown %d) asserts_unsat=%d violations=%d inconclusive=%d wall=%.1fs\n",
		id, *tier, len(items), A.paths, A.done, totQueries, totUnsat, totSat, totUnknown, A.checked, nViol, len(inconc), wall)
	if exit == 0 && len(vacuous) > 0 {
		return 2
	}
	if exit == 0 && len(inconc) > 0 {
		// part of the stated bound was not decided (time box, a construct the encoder
		// does not model, or a counterexample that did not replay): not a success
		fmt.Printf("UNDECIDED property=%s: %d part(s) of the stated bound were not decided; see the INCONCLUSIVE lines\n", id, len(inconc))
		return 3
	}
	return exit
}

// slowest returns the five slowest jobs (how close the run came to the per-job time box).
func slowest(x interface{}) interface{} {
	v := reflect.ValueOf(x)
	idx := make([]int, v.Len())
	for i := range idx {
		idx[i] = i
	}
	sort.Slice(idx, func(a, b int) bool {
		return v.Index(idx[a]).FieldByName("WallS").Float() > v.Index(idx[b]).FieldByName("WallS").Float()
	})
	var out []interface{}
	for i := 0; i < len(idx) && i < 5; i++ {
		out = append(out, v.Index(idx[i]).Interface())
	}
	return out
}

func knownLines(ls []string) []string {
	var out []string
	for _, l := range ls {
		if strings.HasPrefix(l, "KNOWN-FINDING") {
			out = append(out, l)
		}
	}
	return out
}

func filterFns(fns []string) []string {
	var out []string
	for _, f := range fns {
		if strings.Contains(f, "Comcast/") && !strings.Contains(f, ".VH_") && !strings.Contains(f, ".vh") && !strings.Contains(f, "$") {
			out = append(out, strings.ReplaceAll(f, "github.com/Comcast/", ""))
		}
	}
	return out
}

func sanitize(s string) string {
	var b strings.Builder
	for _, r := range s {
		if r >= 'a' && r <= 'z' || r >= 'A' && r <= 'Z' || r >= '0' && r <= '9' || r == '-' || r == '_' {
			b.WriteRune(r)
		} else {
			b.WriteByte('_')
		}
	}
	return b.String()
}

func firstLine(s string) string {
	if i := strings.IndexByte(s, '\n'); i >= 0 {
		return s[:i]
	}
	return s
}

func tail(s string, n int) string {
	if len(s) <= n {
		return s
	}
	return "…" + s[len(s)-n:]
}

func compactJSON(v interface{}) string {
	b, _ := json.Marshal(v)
	return string(b)
}

// cmdReplay re-runs one stored assignment natively: gosym replay <file>
func cmdReplay(args []string) int {
	fs := flag.NewFlagSet("replay", flag.ExitOnError)
	repo := fs.String("repo", envOr("VERIF_REPO", "/repo"), "repository")
	vdir := fs.String("verif", envOr("VERIF_DIR", "/verif"), "verification dir")
	race := fs.Bool("race", false, "build with -race")
	fs.Parse(args)
	if fs.NArg() < 1 {
		fmt.Fprintln(os.Stderr, "replay: file required")
		return 2
	}
	b, err := os.ReadFile(fs.Arg(0))
	if err != nil {
		fmt.Fprintln(os.Stderr, err)
		return 2
	}
	var v Violation
	if err := json.Unmarshal(b, &v); err != nil {
		fmt.Fprintln(os.Stderr, err)
		return 2
	}
	rp, err := NewReplayer(*repo, filepath.Join(*vdir, "harness"), *race)
	if err != nil {
		fmt.Fprintln(os.Stderr, err)
		return 2
	}
	defer rp.Close()
	abs, _ := filepath.Abs(fs.Arg(0))
	rr, err := rp.Run(&v, abs, 90*time.Second)
	if err != nil {
		fmt.Fprintln(os.Stderr, err)
		return 2
	}
	fmt.Print(rr.Out)
	if reproduced(&v, rr) {
		fmt.Printf("REPRODUCED label=%s kind=%s\n", v.Label, v.Kind)
		return 1
	}
	fmt.Println("NOT-REPRODUCED")
	return 0
}
