package main

import (
	"fmt"
	"go/types"
)

// deepEq builds the Bool term for structural equality of two JSON-like values
// (maps with possibly symbolic keys, slices, scalars, interfaces) without forking.
func (ex *Exec) deepEq(a, b Value) *Term {
	if ia, ok := a.(Iface); ok {
		ib, ok := b.(Iface)
		if !ok {
			return ex.deepEq(ia.V, b)
		}
		if ia.T == nil || ib.T == nil {
			return TBool(ia.T == nil && ib.T == nil)
		}
		// maps and slices of different named types with same structure compare equal
		// only if their dynamic types agree
		if !types.Identical(ia.T, ib.T) {
			return TFalse
		}
		return ex.deepEq(ia.V, ib.V)
	}
	if ib, ok := b.(Iface); ok {
		return ex.deepEq(a, ib.V)
	}
	switch av := a.(type) {
	case nil:
		return TBool(b == nil)
	case *Map:
		bv, ok := b.(*Map)
		if !ok {
			return TFalse
		}
		if av == nil || bv == nil {
			return TBool((av == nil || len(av.Entries) == 0) && (bv == nil || len(bv.Entries) == 0) && (av == nil) == (bv == nil))
		}
		if len(av.Entries) != len(bv.Entries) {
			return TFalse
		}
		acc := TTrue
		for _, ea := range av.Entries {
			alt := TFalse
			for _, eb := range bv.Entries {
				k := ex.equals(nil, av.KeyT, ea.K, eb.K)
				if k.IsConst() && !k.B {
					continue
				}
				alt = TOr(alt, TAnd(k, ex.deepEq(ea.V, eb.V)))
			}
			acc = TAnd(acc, alt)
		}
		return acc
	case []Value:
		bv, ok := b.([]Value)
		if !ok {
			return TFalse
		}
		if len(av) != len(bv) || (av == nil) != (bv == nil) {
			return TFalse
		}
		acc := TTrue
		for i := range av {
			acc = TAnd(acc, ex.deepEq(av[i], bv[i]))
		}
		return acc
	case Struct:
		bv, ok := b.(Struct)
		if !ok || len(av) != len(bv) {
			return TFalse
		}
		acc := TTrue
		for i := range av {
			acc = TAnd(acc, ex.deepEq(av[i], bv[i]))
		}
		return acc
	case Array:
		bv, ok := b.(Array)
		if !ok || len(av) != len(bv) {
			return TFalse
		}
		acc := TTrue
		for i := range av {
			acc = TAnd(acc, ex.deepEq(av[i], bv[i]))
		}
		return acc
	case *Value:
		bv, ok := b.(*Value)
		if !ok {
			return TFalse
		}
		if av == bv {
			return TTrue
		}
		if av == nil || bv == nil {
			return TFalse
		}
		return ex.deepEq(*av, *bv)
	case bool, int64, float64, string, *Term:
		switch b.(type) {
		case bool, int64, float64, string, *Term:
			return ex.scalarEq(a, b)
		}
		return TFalse
	case *JSONStr:
		if bv, ok := b.(*JSONStr); ok {
			return ex.deepEq(av.V, bv.V)
		}
		return TFalse
	case *JSONBytes:
		if bv, ok := b.(*JSONBytes); ok {
			return ex.deepEq(av.V, bv.V)
		}
		return TFalse
	case *SymBytes:
		if bv, ok := b.(*SymBytes); ok {
			return TEq(av.S, bv.S)
		}
		return TFalse
	}
	panic(pathEnd{kind: "inconclusive", msg: fmt.Sprintf("deepEq: unsupported %T vs %T", a, b)})
}

// scalarEq compares scalars of possibly different representation kinds.
func (ex *Exec) scalarEq(a, b Value) *Term {
	kind := func(v Value) int {
		switch v := v.(type) {
		case bool:
			return 0
		case int64, float64:
			return 1
		case string:
			return 2
		case *Term:
			return int(v.Sort)
		}
		return -1
	}
	if kind(a) != kind(b) {
		return TFalse
	}
	return ex.equals(nil, nil, a, b)
}

// deepCopy copies maps and slices recursively (scalars and terms are immutable).
func (ex *Exec) deepCopy(v Value) Value {
	switch v := v.(type) {
	case Iface:
		return Iface{T: v.T, V: ex.deepCopy(v.V)}
	case *Map:
		if v == nil {
			return v
		}
		m := &Map{KeyT: v.KeyT, ElemT: v.ElemT}
		for _, e := range v.Entries {
			m.Entries = append(m.Entries, &MapEntry{K: e.K, V: ex.deepCopy(e.V)})
		}
		return m
	case []Value:
		if v == nil {
			return v
		}
		s := make([]Value, len(v))
		for i := range v {
			s[i] = ex.deepCopy(v[i])
		}
		return s
	case Struct:
		s := make(Struct, len(v))
		for i := range v {
			s[i] = ex.deepCopy(v[i])
		}
		return s
	case Array:
		s := make(Array, len(v))
		for i := range v {
			s[i] = ex.deepCopy(v[i])
		}
		return s
	}
	return v
}
