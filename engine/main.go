package main

import (
	"encoding/json"
	"flag"
	"fmt"
	"os"
	"path/filepath"
	"runtime/debug"
	"runtime/pprof"
	"strconv"
	"strings"
	"time"
)

func envOr(k, d string) string {
	if v := os.Getenv(k); v != "" {
		return v
	}
	return d
}

func main() {
	debug.SetGCPercent(400) // the loaded SSA program is a large, static heap
	debug.SetMemoryLimit(28 << 30)
	if len(os.Args) < 2 {
		fmt.Fprintln(os.Stderr, "usage: gosym job|check|replay ...")
		os.Exit(2)
	}
	switch os.Args[1] {
	case "job":
		cmdJob(os.Args[2:])
	case "check":
		os.Exit(cmdCheck(os.Args[2:]))
	case "replay":
		os.Exit(cmdReplay(os.Args[2:]))
	default:
		fmt.Fprintln(os.Stderr, "unknown command", os.Args[1])
		os.Exit(2)
	}
}

func buildOverlay(repo, hdir string) (map[string][]byte, error) {
	ov, err := readOverlayDir(hdir, repo)
	if err != nil {
		return nil, err
	}
	prims, err := os.ReadFile(filepath.Join(hdir, "_prims", "prims.go"))
	if err != nil {
		return nil, err
	}
	for _, p := range harnessPkgs {
		if _, err := os.Stat(filepath.Join(repo, p)); err != nil {
			continue
		}
		src := strings.Replace(string(prims), "package PKG", "package "+p, 1)
		ov[filepath.Join(repo, p, "zz_verif_prims.go")] = []byte(src)
	}
	delete(ov, filepath.Join(repo, "_prims", "zz_verif_prims.go"))
	return ov, nil
}

// cmdJob runs single harness jobs (development aid): gosym job [flags] core.VH_x 1 2
func cmdJob(args []string) {
	fs := flag.NewFlagSet("job", flag.ExitOnError)
	repo := fs.String("repo", envOr("VERIF_REPO", "/repo"), "repository")
	hdir := fs.String("harness", envOr("VERIF_HARNESS", "/verif/harness"), "harness dir")
	conc := fs.Bool("conc", false, "concurrency mode")
	permute := fs.String("permute", "", "comma-separated functions whose map ranges are permuted")
	maxPaths := fs.Int("maxpaths", 200000, "path cap")
	preempt := fs.Int("preempt", 2, "preemption bound (concurrency mode)")
	solver := fs.String("solver", "z3", "solver")
	slog := fs.String("solverlog", "", "log solver input to file")
	verbose := fs.Bool("v", false, "verbose")
	cpuprof := fs.String("cpuprofile", "", "write cpu profile")
	fs.Parse(args)
	rest := fs.Args()
	if len(rest) < 1 {
		fmt.Fprintln(os.Stderr, "job: harness name required")
		os.Exit(2)
	}
	ov, err := buildOverlay(*repo, *hdir)
	if err != nil {
		fmt.Fprintln(os.Stderr, "overlay:", err)
		os.Exit(2)
	}
	prog, err := LoadProgram(*repo, []string{"core", "cron", "sys", "service"}, ov, "")
	if err != nil {
		fmt.Fprintln(os.Stderr, "load:", err)
		os.Exit(2)
	}
	fmt.Fprintf(os.Stderr, "loaded in %s\n", prog.loadTime)
	cfg := defaultConfig()
	cfg.Concurrent = *conc
	cfg.Preempt = *preempt
	cfg.MaxPaths = *maxPaths
	cfg.Solver = *solver
	if *permute != "" {
		cfg.PermuteMaps = true
		for _, f := range strings.Split(*permute, ",") {
			cfg.permuteSet[f] = true
		}
	}
	w, err := NewWorker(prog, 0, cfg)
	if err != nil {
		fmt.Fprintln(os.Stderr, "solver:", err)
		os.Exit(2)
	}
	if *slog != "" {
		f, _ := os.Create(*slog)
		w.solver.log = f
	}
	spec := JobSpec{Harness: rest[0]}
	for _, a := range rest[1:] {
		n, _ := strconv.ParseInt(a, 10, 64)
		spec.Params = append(spec.Params, n)
	}
	if *cpuprof != "" {
		f, _ := os.Create(*cpuprof)
		pprof.StartCPUProfile(f)
		defer pprof.StopCPUProfile()
	}
	t0 := time.Now()
	res := w.runJob(spec)
	out := map[string]interface{}{
		"paths": res.Paths, "done": res.PathsDone, "infeasible": res.Infeasible, "decisions": res.Decisions, "steps": res.Steps,
		"assert_checked": res.AssertChecked, "assert_trivial": res.AssertTrivial, "reached": res.Reached,
		"violations": res.Violations, "violation_count": res.ViolationCount, "inconclusive": res.Inconclusive,
		"unknown_branches": res.UnknownBranches, "samples": res.Samples,
		"wall_s": time.Since(t0).Seconds(), "queries": w.solver.Queries, "solver_s": w.solver.Time.Seconds(), "solver_errors": w.solver.Errors,
	}
	if *verbose {
		out["stubs"] = prog.stubsSeen
		out["opaque"] = prog.opaqueSeen
		out["functions"] = prog.encodedFunctions()
	}
	b, _ := json.MarshalIndent(out, "", " ")
	fmt.Println(string(b))
}
