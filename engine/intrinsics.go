package main

// Environment: engine intrinsics and stubs, keyed by ssa function name.

import (
	"fmt"
	"math/big"
	"regexp"

	"go/token"
	"go/types"
	"golang.org/x/tools/go/ssa"
	"strconv"
	"strings"
	"time"
)

type intrinsicFn func(ex *Exec, fr *frame, args []Value) Value

var intrinsics = map[string]intrinsicFn{}

const ottoPathC = "github.com/robertkrimen/otto"

var harnessPkgs = []string{"core", "cron", "sys", "service"}

func regPrim(name string, fn intrinsicFn) {
	for _, p := range harnessPkgs {
		intrinsics[rulioPath+"/"+p+"."+name] = fn
	}
}

func reg(name string, fn intrinsicFn) { intrinsics[name] = fn }

func concreteStr(ex *Exec, v Value, what string) string {
	s, ok := v.(string)
	if !ok {
		ex.inconclusive(what + ": concrete string expected")
	}
	return s
}

func concreteInt(ex *Exec, v Value, what string) int64 {
	s, ok := v.(int64)
	if !ok {
		ex.inconclusive(what + ": concrete int expected")
	}
	return s
}

func noop(ex *Exec, fr *frame, args []Value) Value { return nil }

func init() {
	// ---- harness primitives ----
	regPrim("vsymStr", func(ex *Exec, fr *frame, a []Value) Value {
		return ex.symString(concreteStr(ex, a[0], "vsymStr"), 0)
	})
	regPrim("vsymStrN", func(ex *Exec, fr *frame, a []Value) Value {
		return ex.symString(concreteStr(ex, a[0], "vsymStrN"), int(concreteInt(ex, a[1], "vsymStrN")))
	})
	regPrim("vsymInt", func(ex *Exec, fr *frame, a []Value) Value {
		return ex.symInt(concreteStr(ex, a[0], "vsymInt"), concreteInt(ex, a[1], "lo"), concreteInt(ex, a[2], "hi"))
	})
	regPrim("vsymInt64", func(ex *Exec, fr *frame, a []Value) Value {
		return ex.symInt(concreteStr(ex, a[0], "vsymInt64"), concreteInt(ex, a[1], "lo"), concreteInt(ex, a[2], "hi"))
	})
	regPrim("vsymNum", func(ex *Exec, fr *frame, a []Value) Value {
		return ex.symInt(concreteStr(ex, a[0], "vsymNum"), concreteInt(ex, a[1], "lo"), concreteInt(ex, a[2], "hi"))
	})
	regPrim("vsymBool", func(ex *Exec, fr *frame, a []Value) Value {
		return ex.symBool(concreteStr(ex, a[0], "vsymBool"))
	})
	regPrim("vchoose", func(ex *Exec, fr *frame, a []Value) Value {
		n := concreteInt(ex, a[0], "vchoose")
		if n <= 0 {
			panic(pathEnd{kind: "assume"})
		}
		c := int64(ex.choose("vchoose", int(n)))
		ex.choices = append(ex.choices, c)
		return c
	})
	regPrim("vassume", func(ex *Exec, fr *frame, a []Value) Value { ex.vassume(a[0]); return nil })
	regPrim("vassert", func(ex *Exec, fr *frame, a []Value) Value {
		ex.vassert(a[0], concreteStr(ex, a[1], "vassert label"))
		return nil
	})
	regPrim("vfail", func(ex *Exec, fr *frame, a []Value) Value {
		ex.vassert(false, concreteStr(ex, a[0], "vfail label"))
		return nil
	})
	regPrim("vreach", func(ex *Exec, fr *frame, a []Value) Value {
		ex.job.res.Reached[concreteStr(ex, a[0], "vreach")]++
		return nil
	})
	regPrim("vand", func(ex *Exec, fr *frame, a []Value) Value {
		return simplify(TAnd(boolTerm(a[0]), boolTerm(a[1])))
	})
	regPrim("vor", func(ex *Exec, fr *frame, a []Value) Value {
		return simplify(TOr(boolTerm(a[0]), boolTerm(a[1])))
	})
	regPrim("vnot", func(ex *Exec, fr *frame, a []Value) Value { return simplify(TNot(boolTerm(a[0]))) })
	regPrim("vimplies", func(ex *Exec, fr *frame, a []Value) Value {
		return simplify(TImplies(boolTerm(a[0]), boolTerm(a[1])))
	})
	regPrim("vall", func(ex *Exec, fr *frame, a []Value) Value {
		acc := TTrue
		for _, x := range a[0].([]Value) {
			acc = TAnd(acc, boolTerm(x))
		}
		return simplify(acc)
	})
	regPrim("vany", func(ex *Exec, fr *frame, a []Value) Value {
		acc := TFalse
		for _, x := range a[0].([]Value) {
			acc = TOr(acc, boolTerm(x))
		}
		return simplify(acc)
	})
	regPrim("viteInt", func(ex *Exec, fr *frame, a []Value) Value {
		return simplify(TIte(boolTerm(a[0]), intTerm(a[1]), intTerm(a[2])))
	})
	regPrim("vstrEq", func(ex *Exec, fr *frame, a []Value) Value { return simplify(TEq(strTerm(a[0]), strTerm(a[1]))) })
	regPrim("vhasPrefix", func(ex *Exec, fr *frame, a []Value) Value {
		return simplify(TPrefixOf(strTerm(a[1]), strTerm(a[0])))
	})
	regPrim("vdeepEq", func(ex *Exec, fr *frame, a []Value) Value { return simplify(ex.deepEq(a[0], a[1])) })
	regPrim("vsnapshot", func(ex *Exec, fr *frame, a []Value) Value { return ex.deepCopy(a[0]) })
	regPrim("vsetNow", func(ex *Exec, fr *frame, a []Value) Value { ex.clock = a[0]; return nil })
	regPrim("vgetNow", func(ex *Exec, fr *frame, a []Value) Value { return ex.clock })
	regPrim("vyield", func(ex *Exec, fr *frame, a []Value) Value { ex.yieldPoint("vyield"); return nil })
	regPrim("vjitter", func(ex *Exec, fr *frame, a []Value) Value { return nil })
	regPrim("vquiesce", func(ex *Exec, fr *frame, a []Value) Value {
		// let every other goroutine run until all are blocked and no timer is pending
		me := ex.cur
		ex.block(func() bool {
			for _, g := range ex.gs {
				if g != me && ex.runnable(g) {
					return false
				}
			}
			for _, t := range ex.timers {
				if !t.fired && !t.stopped {
					return false
				}
			}
			return true
		}, "vquiesce")
		return nil
	})
	regPrim("vrealclock", noop)
	regPrim("vsymbolic", func(ex *Exec, fr *frame, a []Value) Value { return true })
	regPrim("vnote", noop)

	// ---- logging / metrics: no effect on any property ----
	for _, n := range []string{"Log", "Metric", "Point", "logf", "Logf"} {
		reg(rulioPath+"/core."+n, noop)
	}
	reg("(*"+rulioPath+"/core.Parameters).Log", noop)
	reg("("+rulioPath+"/core.Parameters).Log", noop)
	reg(rulioPath+"/core.NewTimer", func(ex *Exec, fr *frame, a []Value) Value { return (*Value)(nil) })
	reg("("+"*"+rulioPath+"/core.Timer).Stop", func(ex *Exec, fr *frame, a []Value) Value { return int64(0) })
	reg("("+"*"+rulioPath+"/core.Timer).StopTag", func(ex *Exec, fr *frame, a []Value) Value { return int64(0) })
	reg("("+"*"+rulioPath+"/core.Timer).Reset", noop)
	reg(rulioPath+"/core.IpAddress", func(ex *Exec, fr *frame, a []Value) Value { return "127.0.0.1" })
	reg(rulioPath+"/core.UUID", func(ex *Exec, fr *frame, a []Value) Value {
		ex.uuidCount++
		// fresh, distinct from every id present: ids in harnesses never start with "uuid#"
		return fmt.Sprintf("uuid#%d", ex.uuidCount)
	})
	reg(rulioPath+"/core.ISlice", func(ex *Exec, fr *frame, a []Value) Value {
		it, ok := a[0].(Iface)
		if !ok || it.T == nil {
			return Tuple{Iface{}, false}
		}
		if st, ok := it.T.Underlying().(*types.Slice); ok {
			xs, ok := it.V.([]Value)
			if !ok {
				ex.inconclusive("ISlice on symbolic bytes")
			}
			acc := make([]Value, len(xs))
			for i, x := range xs {
				if _, isI := st.Elem().Underlying().(*types.Interface); isI {
					acc[i] = x
				} else {
					acc[i] = Iface{T: st.Elem(), V: x}
				}
			}
			return Tuple{Iface{T: ex.w.sliceOfEmptyIface(), V: acc}, true}
		}
		return Tuple{Iface{T: ex.w.reflectValueType(), V: &Opaque{"reflect.Value"}}, false}
	})

	// ---- otto boundary: compile keeps the code, run is delegated to the harness's
	// model of the script family (vhRunJS in harness/core) ----
	// CompileJavascript runs its real body (library lookup through the location's control,
	// concatenation); only otto's parser is a model: (*Otto).Compile below keeps the whole
	// program text and refuses text that carries the marker @@syntax-error@@ (which the
	// harnesses put inside JavaScript that really does not parse).
	reg("(*"+ottoPathC+".Otto).Compile", func(ex *Exec, fr *frame, a []Value) Value {
		code := a[2]
		if it, ok := code.(Iface); ok {
			code = it.V
		}
		if s, ok := code.(string); ok && strings.Contains(s, "@@syntax-error@@") {
			return Tuple{(*Value)(nil), ex.newError("compile error")}
		}
		cell := Value(code)
		return Tuple{&cell, Iface{}}
	})
	reg(rulioPath+"/core.RunJavascript", func(ex *Exec, fr *frame, a []Value) Value {
		pkg := ex.w.pkgs[rulioPath+"/core"]
		// scripts of the otto protocol family (C14) run the real RunJavascript body
		// over the otto model below
		if code, ok := ottoCode(a[3]); ok && ottoFamily(code) != "" && !strings.Contains(code, "@@lib-throws@@") {
			if fn := pkg.Func("RunJavascript"); fn != nil {
				return ex.callBody(fr, fn, a)
			}
		}
		var fn *ssa.Function
		if pkg != nil {
			fn = pkg.Func("vhRunJS")
		}
		if fn == nil {
			return &Opaque{"RunJavascript without a harness model (vhRunJS)"}
		}
		var code Value = ""
		switch src := a[3].(type) {
		case Iface:
			if p, ok := src.V.(*Value); ok && p != nil {
				code = *p
			} else if s, ok := src.V.(string); ok {
				code = s
			}
		}
		if s, ok := code.(string); ok {
			// a compiled program is library text, a newline, the script: libraries only
			// define things unless they carry the marker @@lib-throws@@ (inside JavaScript
			// that really throws when loaded)
			libs, last := ottoSplit(s)
			if strings.Contains(libs, "@@lib-throws@@") {
				return Tuple{Iface{}, ex.newError("Error: thrown while loading a library")}
			}
			code = last
		}
		return ex.call(fr, 0, fn, []Value{a[1], a[2], code})
	})

	// ---- otto protocol model (C14): New/Set/Run/Export ----
	const ottoPath = "github.com/robertkrimen/otto"
	reg(ottoPath+".New", func(ex *Exec, fr *frame, a []Value) Value {
		pkg := ex.w.pkgs[ottoPath]
		if pkg == nil {
			return &Opaque{"otto not loaded"}
		}
		cell := zero(pkg.Type("Otto").Object().Type())
		return &cell
	})
	reg("("+ottoPath+".Otto).Set", func(ex *Exec, fr *frame, a []Value) Value { return Iface{} })
	reg("("+ottoPath+".Otto).ToValue", func(ex *Exec, fr *frame, a []Value) Value {
		return Tuple{ex.ottoValue(a[1]), Iface{}}
	})
	reg("("+ottoPath+".Value).Export", func(ex *Exec, fr *frame, a []Value) Value {
		st := a[0].(Struct)
		return Tuple{st[len(st)-1], Iface{}}
	})
	reg("("+ottoPath+".Otto).Run", func(ex *Exec, fr *frame, a []Value) Value {
		code, _ := ottoCode(a[1])
		otto := a[0].(Struct)
		var intr *Chan
		pkg := ex.w.pkgs[ottoPath]
		st := pkg.Type("Otto").Object().Type().Underlying().(*types.Struct)
		for i := 0; i < st.NumFields(); i++ {
			if st.Field(i).Name() == "Interrupt" {
				intr, _ = otto[i].(*Chan)
			}
		}
		halted := func() {
			// deliver the interrupt: the function panics (Halt)
			v, _, _ := ex.tryRecv(intr)
			if v != nil {
				ex.call(fr, 0, v, nil)
			}
		}
		switch ottoFamily(code) {
		case "value":
			return Tuple{ex.ottoValue(Iface{T: types.Typ[types.Float64], V: float64(2)}), Iface{}}
		case "throw":
			return Tuple{ex.ottoValue(Iface{}), ex.newError("Error: thrown")}
		case "loop":
			if intr == nil {
				ex.block(func() bool { return false }, "non-terminating script without interrupt channel")
			}
			ex.block(func() bool { return ex.chanReadyRecv(intr) }, "non-terminating script (otto.Run)")
			halted()
			return Tuple{ex.ottoValue(Iface{}), ex.newError("interrupt channel closed")}
		case "slow":
			// finishes after d unless the interrupt arrives first
			d := ex.ottoSlowNs
			fin := ex.newChan(1, nil)
			fin.isTimer = true
			fin.deadline = simplify(TAdd(intTerm(ex.clock), intTerm(d)))
			ex.timers = append(ex.timers, fin)
			ex.block(func() bool { return (fin.fired && len(fin.buf) > 0) || (intr != nil && ex.chanReadyRecv(intr)) }, "slow script (otto.Run)")
			if intr != nil && ex.chanReadyRecv(intr) && !(fin.fired && len(fin.buf) > 0) {
				fin.stopped = true
				halted()
			}
			fin.stopped = true
			return Tuple{ex.ottoValue(Iface{T: types.Typ[types.Float64], V: float64(2)}), Iface{}}
		}
		return &Opaque{"otto.Run of a script outside the protocol family"}
	})
	regPrim("vottoSlow", func(ex *Exec, fr *frame, a []Value) Value { ex.ottoSlowNs = a[0]; return nil })

	// ---- sync ----
	reg("(*sync.Mutex).Lock", func(ex *Exec, fr *frame, a []Value) Value {
		ex.mutexLock(fr.callerOr(), a[0].(*Value), true)
		return nil
	})
	reg("(*sync.Mutex).Unlock", func(ex *Exec, fr *frame, a []Value) Value {
		ex.mutexUnlock(fr.callerOr(), a[0].(*Value), true)
		return nil
	})
	reg("(*sync.Mutex).TryLock", func(ex *Exec, fr *frame, a []Value) Value {
		l := ex.lockOf(a[0].(*Value))
		if l.held || l.readers > 0 {
			return false
		}
		l.held, l.owner = true, ex.cur
		return true
	})
	reg("(*sync.RWMutex).Lock", func(ex *Exec, fr *frame, a []Value) Value {
		ex.mutexLock(fr.callerOr(), a[0].(*Value), true)
		return nil
	})
	reg("(*sync.RWMutex).Unlock", func(ex *Exec, fr *frame, a []Value) Value {
		ex.mutexUnlock(fr.callerOr(), a[0].(*Value), true)
		return nil
	})
	reg("(*sync.RWMutex).RLock", func(ex *Exec, fr *frame, a []Value) Value {
		ex.mutexLock(fr.callerOr(), a[0].(*Value), false)
		return nil
	})
	reg("(*sync.RWMutex).RUnlock", func(ex *Exec, fr *frame, a []Value) Value {
		ex.mutexUnlock(fr.callerOr(), a[0].(*Value), false)
		return nil
	})
	reg("(*sync.WaitGroup).Add", func(ex *Exec, fr *frame, a []Value) Value {
		w := ex.wgOf(a[0].(*Value))
		w.n += concreteInt(ex, a[1], "WaitGroup.Add")
		if w.n < 0 {
			panic(targetPanic{v: Iface{T: ex.w.runtimeErrorString, V: "sync: negative WaitGroup counter"}, pos: fr.posStr()})
		}
		ex.syncRelease(&w.vc)
		return nil
	})
	reg("(*sync.WaitGroup).Done", func(ex *Exec, fr *frame, a []Value) Value {
		w := ex.wgOf(a[0].(*Value))
		ex.syncRelease(&w.vc)
		w.n--
		if w.n < 0 {
			panic(targetPanic{v: Iface{T: ex.w.runtimeErrorString, V: "sync: negative WaitGroup counter"}, pos: fr.posStr()})
		}
		return nil
	})
	reg("(*sync.WaitGroup).Wait", func(ex *Exec, fr *frame, a []Value) Value {
		w := ex.wgOf(a[0].(*Value))
		ex.yieldPoint("wait")
		ex.block(func() bool { return w.n == 0 }, "WaitGroup.Wait")
		ex.syncAcquire(&w.vc)
		return nil
	})
	reg("(*sync.Once).Do", func(ex *Exec, fr *frame, a []Value) Value {
		p := a[0].(*Value)
		if ex.onces[p] {
			return nil
		}
		ex.onces[p] = true
		ex.call(fr, 0, a[1], nil)
		return nil
	})
	for _, k := range []string{"Uint64", "Int64", "Uint32", "Int32"} {
		k := k
		reg("sync/atomic.Add"+k, func(ex *Exec, fr *frame, a []Value) Value {
			p := a[0].(*Value)
			ex.atomicSync(p)
			sum := ex.binop(fr, token.ADD, types.Typ[types.Int64], *p, a[1])
			*p = sum
			return sum
		})
		reg("sync/atomic.Load"+k, func(ex *Exec, fr *frame, a []Value) Value {
			p := a[0].(*Value)
			ex.atomicSync(p)
			return *p
		})
		reg("sync/atomic.Store"+k, func(ex *Exec, fr *frame, a []Value) Value {
			p := a[0].(*Value)
			ex.atomicSync(p)
			*p = a[1]
			return nil
		})
		reg("sync/atomic.CompareAndSwap"+k, func(ex *Exec, fr *frame, a []Value) Value {
			p := a[0].(*Value)
			ex.atomicSync(p)
			eq := ex.equals(fr, nil, *p, a[1])
			if ex.branchV(eq) {
				*p = a[2]
				return true
			}
			return false
		})
	}

	reg("sync/atomic.StorePointer", func(ex *Exec, fr *frame, a []Value) Value {
		p := a[0].(*Value)
		ex.atomicSync(p)
		*p = a[1]
		return nil
	})
	reg("sync/atomic.LoadPointer", func(ex *Exec, fr *frame, a []Value) Value {
		p := a[0].(*Value)
		ex.atomicSync(p)
		return *p
	})
	reg("(*sync/atomic.Value).Store", func(ex *Exec, fr *frame, a []Value) Value {
		p := a[0].(*Value)
		ex.atomicSync(p)
		ex.atomics[p] = a[1]
		return nil
	})
	reg("(*sync/atomic.Value).Load", func(ex *Exec, fr *frame, a []Value) Value {
		p := a[0].(*Value)
		ex.atomicSync(p)
		if v, ok := ex.atomics[p]; ok {
			return v
		}
		return Iface{}
	})

	// ---- errors / fmt ----
	reg("errors.New", func(ex *Exec, fr *frame, a []Value) Value { return ex.newError(a[0]) })
	reg("fmt.Errorf", func(ex *Exec, fr *frame, a []Value) Value { return ex.newError(ex.sprintf(fr, a[0], a[1])) })
	reg("fmt.Sprintf", func(ex *Exec, fr *frame, a []Value) Value { return ex.sprintf(fr, a[0], a[1]) })
	reg("fmt.Sprint", func(ex *Exec, fr *frame, a []Value) Value {
		xs := a[0].([]Value)
		f := strings.Repeat("%v", len(xs))
		return ex.sprintf(fr, f, a[0])
	})
	reg("fmt.Sprintln", func(ex *Exec, fr *frame, a []Value) Value {
		xs := a[0].([]Value)
		f := strings.TrimSpace(strings.Repeat("%v ", len(xs))) + "\n"
		return ex.sprintf(fr, f, a[0])
	})
	reg("fmt.Fprintf", func(ex *Exec, fr *frame, a []Value) Value {
		w, ok := a[0].(Iface)
		if !ok || w.T == nil {
			return Tuple{int64(0), Iface{}}
		}
		s := ex.sprintf(fr, a[1], a[2])
		var bs Value
		switch sv := s.(type) {
		case string:
			bs = strBytes(sv)
		case *Term:
			bs = &SymBytes{sv}
		}
		ms := ex.w.prog.MethodSets.MethodSet(w.T)
		if sel := ms.Lookup(nil, "Write"); sel != nil {
			if fn := ex.w.prog.MethodValue(sel); fn != nil {
				return ex.call(fr, 0, fn, []Value{w.V, bs})
			}
		}
		return Tuple{int64(0), Iface{}}
	})
	for _, n := range []string{"fmt.Printf", "fmt.Println", "fmt.Print", "fmt.Fprintln", "log.Printf", "log.Println", "log.Print"} {
		reg(n, func(ex *Exec, fr *frame, a []Value) Value { return Tuple{int64(0), Iface{}} })
	}
	reg("log.Printf", noop)
	reg("log.Println", noop)
	reg("log.Print", noop)
	reg("log.Fatal", func(ex *Exec, fr *frame, a []Value) Value {
		panic(pathEnd{kind: "crash", msg: "log.Fatal at " + fr.posStr()})
	})
	reg("log.Fatalf", func(ex *Exec, fr *frame, a []Value) Value {
		panic(pathEnd{kind: "crash", msg: "log.Fatalf at " + fr.posStr()})
	})

	// reflect.DeepEqual over the JSON-like values rulio handles: the engine's structural
	// equality term (dynamic types must agree, nil and empty maps differ)
	reg("reflect.DeepEqual", func(ex *Exec, fr *frame, a []Value) Value {
		return simplify(ex.deepEq(a[0], a[1]))
	})

	// ---- strings ----
	reg("strings.HasPrefix", func(ex *Exec, fr *frame, a []Value) Value {
		return simplify(TPrefixOf(strTerm(a[1]), strTerm(a[0])))
	})
	reg("strings.HasSuffix", func(ex *Exec, fr *frame, a []Value) Value {
		return simplify(TSuffixOf(strTerm(a[1]), strTerm(a[0])))
	})
	reg("strings.Contains", func(ex *Exec, fr *frame, a []Value) Value {
		return simplify(TContains(strTerm(a[0]), strTerm(a[1])))
	})
	reg("strings.Index", func(ex *Exec, fr *frame, a []Value) Value {
		if _, isJSON := a[0].(*JSONStr); isJSON {
			// text of a JSON token: "may occur at a positive offset" (callers use this as
			// a cheap pre-check before parsing)
			return int64(1)
		}
		return simplify(TIndexOf(strTerm(a[0]), strTerm(a[1])))
	})
	reg("strings.TrimPrefix", func(ex *Exec, fr *frame, a []Value) Value {
		s, p := strTerm(a[0]), strTerm(a[1])
		if s.IsConst() && p.IsConst() {
			return strings.TrimPrefix(s.S, p.S)
		}
		if ex.branchV(TPrefixOf(p, s)) {
			return simplify(TSubstr(s, TStrLen(p), TSub(TStrLen(s), TStrLen(p))))
		}
		return a[0]
	})
	reg("strings.TrimSuffix", func(ex *Exec, fr *frame, a []Value) Value {
		s, p := strTerm(a[0]), strTerm(a[1])
		if s.IsConst() && p.IsConst() {
			return strings.TrimSuffix(s.S, p.S)
		}
		if ex.branchV(TSuffixOf(p, s)) {
			return simplify(TSubstr(s, TInt(0), TSub(TStrLen(s), TStrLen(p))))
		}
		return a[0]
	})
	native1 := func(name string, f func(string) string) {
		reg(name, func(ex *Exec, fr *frame, a []Value) Value {
			s, ok := a[0].(string)
			if !ok {
				ex.inconclusive(name + " on symbolic string")
			}
			return f(s)
		})
	}
	native1("strings.ToLower", strings.ToLower)
	native1("strings.ToUpper", strings.ToUpper)
	// TrimSpace over a symbolic string: strip one white-space character at a time, each
	// strip an explored decision (bounded by the string length bound of the harness).
	// ToLower / ToUpper of a symbolic (printable ASCII) string: the length is case-split,
	// each character is mapped through its code
	caseMap := func(name string, lo, hi, delta int64, native func(string) string) {
		reg(name, func(ex *Exec, fr *frame, a []Value) Value {
			if s, ok := a[0].(string); ok {
				return native(s)
			}
			s := strTerm(a[0])
			out := TStr("")
			for i := int64(0); i < 16; i++ {
				if !ex.branchV(TGt(TStrLen(s), TInt(i))) {
					return simplify(out)
				}
				c := TStrAt(s, TInt(i))
				code := TToCode(c)
				out = TConcat(out, TIte(TAnd(TGe(code, TInt(lo)), TLe(code, TInt(hi))), TFromCode(TAdd(code, TInt(delta))), c))
			}
			ex.inconclusive(name + " of a symbolic string longer than 16")
			return nil
		})
	}
	caseMap("strings.ToLower", 65, 90, 32, strings.ToLower)
	caseMap("strings.ToUpper", 97, 122, -32, strings.ToUpper)
	reg("strings.TrimSpace", func(ex *Exec, fr *frame, a []Value) Value {
		if s, ok := a[0].(string); ok {
			return strings.TrimSpace(s)
		}
		isSpace := func(c *Term) *Term {
			var alts []*Term
			for _, sp := range []string{" ", "\t", "\n", "\v", "\f", "\r"} {
				alts = append(alts, TEq(c, TStr(sp)))
			}
			return TOr(alts...)
		}
		cur := strTerm(a[0])
		for i := 0; i < 64; i++ {
			n := TStrLen(cur)
			if !ex.branchV(TAnd(TGt(n, TInt(0)), isSpace(TStrAt(cur, TInt(0))))) {
				break
			}
			cur = strTerm(simplify(TSubstr(cur, TInt(1), TSub(n, TInt(1)))))
		}
		for i := 0; i < 64; i++ {
			n := TStrLen(cur)
			if !ex.branchV(TAnd(TGt(n, TInt(0)), isSpace(TStrAt(cur, TSub(n, TInt(1)))))) {
				break
			}
			cur = strTerm(simplify(TSubstr(cur, TInt(0), TSub(n, TInt(1)))))
		}
		return cur
	})
	reg("strings.Split", func(ex *Exec, fr *frame, a []Value) Value {
		s, ok1 := a[0].(string)
		sep, ok2 := a[1].(string)
		if !ok1 || !ok2 {
			ex.inconclusive("strings.Split on symbolic string")
		}
		var out []Value
		for _, p := range strings.Split(s, sep) {
			out = append(out, p)
		}
		return out
	})
	reg("strings.SplitN", func(ex *Exec, fr *frame, a []Value) Value {
		s, ok1 := a[0].(string)
		sep, ok2 := a[1].(string)
		n, ok3 := a[2].(int64)
		if !ok1 || !ok2 || !ok3 {
			ex.inconclusive("strings.SplitN on symbolic string")
		}
		var out []Value
		for _, p := range strings.SplitN(s, sep, int(n)) {
			out = append(out, p)
		}
		return out
	})
	reg("strings.Join", func(ex *Exec, fr *frame, a []Value) Value {
		xs := a[0].([]Value)
		sep := strTerm(a[1])
		acc := TStr("")
		for i, x := range xs {
			if i > 0 {
				acc = TConcat(acc, sep)
			}
			acc = TConcat(acc, strTerm(x))
		}
		return simplify(acc)
	})
	reg("strings.Replace", func(ex *Exec, fr *frame, a []Value) Value {
		s, ok1 := a[0].(string)
		o, ok2 := a[1].(string)
		n, ok3 := a[2].(string)
		k, ok4 := a[3].(int64)
		if !ok1 || !ok2 || !ok3 || !ok4 {
			ex.inconclusive("strings.Replace on symbolic string")
		}
		return strings.Replace(s, o, n, int(k))
	})
	reg("strings.EqualFold", func(ex *Exec, fr *frame, a []Value) Value {
		s, ok1 := a[0].(string)
		o, ok2 := a[1].(string)
		if !ok1 || !ok2 {
			ex.inconclusive("strings.EqualFold on symbolic string")
		}
		return strings.EqualFold(s, o)
	})

	// ---- regexp (concrete patterns and subjects only) ----
	compile := func(ex *Exec, a []Value) (Value, error) {
		pat, ok := a[0].(string)
		if !ok {
			return nil, fmt.Errorf("symbolic pattern")
		}
		if _, err := regexp.Compile(pat); err != nil {
			return nil, err
		}
		cell := Value(Struct{pat})
		return &cell, nil
	}
	reg("regexp.Compile", func(ex *Exec, fr *frame, a []Value) Value {
		re, err := compile(ex, a)
		if err != nil {
			return Tuple{(*Value)(nil), ex.newError("regexp: " + err.Error())}
		}
		return Tuple{re, Iface{}}
	})
	reg("regexp.MustCompile", func(ex *Exec, fr *frame, a []Value) Value {
		re, err := compile(ex, a)
		if err != nil {
			return &Opaque{"regexp.MustCompile: " + err.Error()}
		}
		return re
	})
	rex := func(ex *Exec, v Value) *regexp.Regexp {
		p, ok := v.(*Value)
		if !ok || p == nil {
			ex.inconclusive("regexp receiver is not an engine regexp")
		}
		st, ok := (*p).(Struct)
		if !ok {
			ex.inconclusive("regexp receiver is not an engine regexp")
		}
		return regexp.MustCompile(st[0].(string))
	}
	reg("(*regexp.Regexp).ReplaceAllString", func(ex *Exec, fr *frame, a []Value) Value {
		src, ok1 := a[1].(string)
		repl, ok2 := a[2].(string)
		if !ok1 || !ok2 {
			ex.inconclusive("regexp on a symbolic string")
		}
		return rex(ex, a[0]).ReplaceAllString(src, repl)
	})
	reg("(*regexp.Regexp).MatchString", func(ex *Exec, fr *frame, a []Value) Value {
		src, ok := a[1].(string)
		if !ok {
			ex.inconclusive("regexp on a symbolic string")
		}
		return rex(ex, a[0]).MatchString(src)
	})

	// ---- strconv ----
	reg("strconv.Itoa", func(ex *Exec, fr *frame, a []Value) Value { return simplify(TFromInt(intTerm(a[0]))) })
	reg("strconv.FormatInt", func(ex *Exec, fr *frame, a []Value) Value {
		if b, ok := a[1].(int64); ok && b == 10 {
			return simplify(TFromInt(intTerm(a[0])))
		}
		ex.inconclusive("FormatInt base != 10")
		return nil
	})
	reg("strconv.FormatFloat", func(ex *Exec, fr *frame, a []Value) Value {
		switch f := a[0].(type) {
		case float64:
			return strconv.FormatFloat(f, byte(concreteInt(ex, a[1], "fmt")), int(concreteInt(ex, a[2], "prec")), int(concreteInt(ex, a[3], "bits")))
		case *Term:
			if c, ok := a[1].(int64); ok && c == 'f' {
				return simplify(TFromInt(f))
			}
		}
		ex.inconclusive("FormatFloat on symbolic with non-'f' format")
		return nil
	})
	reg("strconv.FormatBool", func(ex *Exec, fr *frame, a []Value) Value {
		return simplify(TIte(boolTerm(a[0]), TStr("true"), TStr("false")))
	})
	reg("strconv.Atoi", func(ex *Exec, fr *frame, a []Value) Value {
		s, ok := a[0].(string)
		if !ok {
			ex.inconclusive("Atoi on symbolic string")
		}
		n, err := strconv.Atoi(s)
		if err != nil {
			return Tuple{int64(0), ex.newError("strconv.Atoi: " + err.Error())}
		}
		return Tuple{int64(n), Iface{}}
	})
	reg("strconv.ParseBool", func(ex *Exec, fr *frame, a []Value) Value {
		s, ok := a[0].(string)
		if !ok {
			ex.inconclusive("ParseBool on symbolic string")
		}
		n, err := strconv.ParseBool(s)
		if err != nil {
			return Tuple{false, ex.newError(err.Error())}
		}
		return Tuple{n, Iface{}}
	})

	// ---- time ----
	reg("time.Now", func(ex *Exec, fr *frame, a []Value) Value { return ex.timeStruct(ex.clock) })
	reg("time.Unix", func(ex *Exec, fr *frame, a []Value) Value {
		if sec, ok := a[0].(int64); ok && (sec > 9_000_000_000 || sec < -9_000_000_000) {
			// beyond what nanoseconds-in-int64 can hold (e.g. sys.EndOfTime): saturate
			if sec > 0 {
				return ex.timeStruct(int64(1) << 62)
			}
			return ex.timeStruct(-(int64(1) << 62))
		}
		ns := TAdd(TMul(intTerm(a[0]), TInt(1_000_000_000)), intTerm(a[1]))
		return ex.timeStruct(simplify(ns))
	})
	reg("(time.Time).UTC", func(ex *Exec, fr *frame, a []Value) Value { return a[0] })
	reg("(time.Time).Local", func(ex *Exec, fr *frame, a []Value) Value { return a[0] })
	reg("(time.Time).Unix", func(ex *Exec, fr *frame, a []Value) Value {
		ns := intTerm(timeNs(a[0]))
		if ns.Lo >= 0 {
			return simplify(TDivTrunc(ns, TInt(1_000_000_000)))
		}
		return simplify(mk("div", SInt, ns, TInt(1_000_000_000)))
	})
	reg("(time.Time).UnixNano", func(ex *Exec, fr *frame, a []Value) Value { return timeNs(a[0]) })
	reg("(time.Time).IsZero", func(ex *Exec, fr *frame, a []Value) Value {
		return simplify(TEq(intTerm(timeNs(a[0])), TInt(zeroTimeNs)))
	})
	reg("(time.Time).Sub", func(ex *Exec, fr *frame, a []Value) Value {
		return simplify(TSub(intTerm(timeNs(a[0])), intTerm(timeNs(a[1]))))
	})
	reg("(time.Time).Add", func(ex *Exec, fr *frame, a []Value) Value {
		return ex.timeStruct(simplify(TAdd(intTerm(timeNs(a[0])), intTerm(a[1]))))
	})
	reg("(time.Time).Truncate", func(ex *Exec, fr *frame, a []Value) Value {
		// rounding down to a multiple of d since the zero time (year 1); the Unix epoch
		// lies 62135596800 s after it
		d, ok := a[1].(int64)
		if !ok {
			return &Opaque{"Time.Truncate with symbolic duration"}
		}
		if d <= 0 {
			return a[0]
		}
		off := new(big.Int).Mul(big.NewInt(62135596800), big.NewInt(1_000_000_000))
		offmod := new(big.Int).Mod(off, big.NewInt(d)).Int64()
		ns := intTerm(timeNs(a[0]))
		r := TMod(TAdd(ns, TInt(offmod)), TInt(d))
		return ex.timeStruct(simplify(TSub(ns, r)))
	})
	reg("(time.Duration).Truncate", func(ex *Exec, fr *frame, a []Value) Value {
		m, ok := a[1].(int64)
		if !ok || m <= 0 {
			return a[0]
		}
		return simplify(TSub(intTerm(a[0]), TRemTrunc(intTerm(a[0]), TInt(m))))
	})
	reg("(time.Time).Before", func(ex *Exec, fr *frame, a []Value) Value {
		return simplify(TLt(intTerm(timeNs(a[0])), intTerm(timeNs(a[1]))))
	})
	reg("(time.Time).After", func(ex *Exec, fr *frame, a []Value) Value {
		return simplify(TGt(intTerm(timeNs(a[0])), intTerm(timeNs(a[1]))))
	})
	reg("(time.Time).Equal", func(ex *Exec, fr *frame, a []Value) Value {
		return simplify(TEq(intTerm(timeNs(a[0])), intTerm(timeNs(a[1]))))
	})
	reg("(time.Time).Format", func(ex *Exec, fr *frame, a []Value) Value {
		if ns, ok := timeNs(a[0]).(int64); ok {
			if l, ok := a[1].(string); ok {
				return time.Unix(0, ns).UTC().Format(l)
			}
		}
		if nt, ok := timeNs(a[0]).(*Term); ok {
			if l, ok := a[1].(string); ok && (l == time.RFC3339 || l == time.RFC3339Nano) {
				// tagged rendering of the whole seconds; time.Parse recognises it
				secs := TDivTrunc(nt, TInt(1_000_000_000))
				return simplify(TConcat(TStr(rfcTag), TFromInt(secs)))
			}
		}
		return "<time>"
	})
	reg("(time.Time).String", func(ex *Exec, fr *frame, a []Value) Value { return "<time>" })
	reg("time.Since", func(ex *Exec, fr *frame, a []Value) Value {
		return simplify(TSub(intTerm(ex.clock), intTerm(timeNs(a[0]))))
	})
	reg("(time.Duration).Seconds", func(ex *Exec, fr *frame, a []Value) Value {
		if d, ok := a[0].(int64); ok {
			return time.Duration(d).Seconds()
		}
		return &Opaque{"Duration.Seconds of symbolic duration"}
	})
	reg("(time.Duration).Nanoseconds", func(ex *Exec, fr *frame, a []Value) Value { return a[0] })
	reg("(time.Duration).String", func(ex *Exec, fr *frame, a []Value) Value {
		if d, ok := a[0].(int64); ok {
			return time.Duration(d).String()
		}
		return "<duration>"
	})
	reg("time.Sleep", func(ex *Exec, fr *frame, a []Value) Value {
		ex.clock = simplify(TAdd(intTerm(ex.clock), intTerm(a[0])))
		ex.yieldPoint("sleep")
		return nil
	})
	reg("time.NewTimer", func(ex *Exec, fr *frame, a []Value) Value {
		ch := ex.newChan(1, nil)
		ch.isTimer = true
		ch.deadline = simplify(TAdd(intTerm(ex.clock), intTerm(a[0])))
		ex.timers = append(ex.timers, ch)
		cell := Value(Struct{ch, Struct{}})
		return &cell
	})
	reg("(*time.Timer).Stop", func(ex *Exec, fr *frame, a []Value) Value {
		p := a[0].(*Value)
		if p == nil {
			return false
		}
		ch := (*p).(Struct)[0].(*Chan)
		was := !ch.fired && !ch.stopped
		ch.stopped = true
		return was
	})
	reg("(*time.Timer).Reset", func(ex *Exec, fr *frame, a []Value) Value {
		p := a[0].(*Value)
		ch := (*p).(Struct)[0].(*Chan)
		was := !ch.fired && !ch.stopped
		ch.stopped, ch.fired = false, false
		ch.buf = nil
		ch.deadline = simplify(TAdd(intTerm(ex.clock), intTerm(a[1])))
		return was
	})
	reg("time.After", func(ex *Exec, fr *frame, a []Value) Value {
		ch := ex.newChan(1, nil)
		ch.isTimer = true
		ch.deadline = simplify(TAdd(intTerm(ex.clock), intTerm(a[0])))
		ex.timers = append(ex.timers, ch)
		return ch
	})
	reg("time.ParseDuration", func(ex *Exec, fr *frame, a []Value) Value {
		switch s := a[0].(type) {
		case string:
			d, err := time.ParseDuration(s)
			if err != nil {
				return Tuple{int64(0), ex.newError(err.Error())}
			}
			return Tuple{int64(d), Iface{}}
		case *Term:
			// decimal rendering of a symbolic integer followed by a unit: exact
			if s.Op == "str.++" && len(s.Args) == 2 && s.Args[0].Op == "fmtint" && s.Args[1].IsConst() {
				if u, err := time.ParseDuration("1" + s.Args[1].S); err == nil {
					return Tuple{simplify(TMul(s.Args[0].Args[0], TInt(int64(u)))), Iface{}}
				}
			}
			// otherwise uninterpreted: ok flag and value are functions of the string
			return ex.parseModel("dur", s, -(1 << 50), 1<<50)
		}
		return &Opaque{"ParseDuration"}
	})
	reg("time.Parse", func(ex *Exec, fr *frame, a []Value) Value {
		l, ok := a[0].(string)
		if !ok {
			return &Opaque{"time.Parse symbolic layout"}
		}
		switch s := a[1].(type) {
		case string:
			t, err := time.Parse(l, s)
			if err != nil {
				return Tuple{ex.timeStruct(int64(zeroTimeNs)), ex.newError(err.Error())}
			}
			return Tuple{ex.timeStruct(t.UnixNano()), Iface{}}
		case *Term:
			if s.Op == "str.++" && len(s.Args) == 2 && s.Args[0].IsConst() && s.Args[0].S == rfcTag && s.Args[1].Op == "fmtint" {
				return Tuple{ex.timeStruct(simplify(TMul(s.Args[1].Args[0], TInt(1_000_000_000)))), Iface{}}
			}
			r := ex.parseModel("time", s, 0, 1<<40).(Tuple)
			// value is whole seconds
			secs := r[0]
			return Tuple{ex.timeStruct(simplify(TMul(intTerm(secs), TInt(1_000_000_000)))), r[1]}
		}
		return &Opaque{"time.Parse"}
	})
}

const rfcTag = "@rfc3339:"

const zeroTimeNs = -6795364578871345152 // sentinel for the zero time.Time (clamped)

func (fr *frame) callerOr() *frame {
	if fr.caller != nil {
		return fr.caller
	}
	return fr
}

func (ex *Exec) wgOf(p *Value) *wgState {
	w := ex.wgs[p]
	if w == nil {
		w = &wgState{}
		ex.wgs[p] = w
	}
	return w
}

func (ex *Exec) atomicSync(p *Value) {
	if ex.race == nil {
		return
	}
	l := ex.lockOf(p)
	ex.syncAcquire(&l.vc)
	ex.syncRelease(&l.vc)
}

// time.Time is modelled as its struct with the nanoseconds-since-epoch in field 1 (ext).
func (ex *Exec) timeStruct(ns Value) Value {
	return Struct{int64(0), ns, (*Value)(nil)}
}

func timeNs(v Value) Value {
	s, ok := v.(Struct)
	if !ok {
		panic(pathEnd{kind: "inconclusive", msg: fmt.Sprintf("time value is %T", v)})
	}
	if w, ok := s[0].(int64); ok && w == 0 {
		if e, ok := s[1].(int64); ok && e == 0 {
			return int64(zeroTimeNs)
		}
	}
	return s[1]
}

func (ex *Exec) clockAtLeast(t Value) {
	c := intTerm(ex.clock)
	d := intTerm(t)
	ex.clock = simplify(TIte(TGe(c, d), c, d))
}

// parseModel models a parser as an uninterpreted function of its input string: a
// symbolic success flag and value, both named after the string term so that parsing
// the same string twice gives the same answer.
func (ex *Exec) parseModel(kind string, s *Term, lo, hi int64) Value {
	key := "parse." + kind + "(" + s.String() + ")"
	ok := ex.symBool(key + ".ok")
	val := ex.symInt(key+".val", lo, hi)
	if ex.branch(ok) {
		return Tuple{Value(val), Iface{}}
	}
	return Tuple{int64(0), ex.newError("parse error")}
}

// ---- errors ----

func (ex *Exec) newError(msg Value) Value {
	t := ex.w.errorsErrorString
	cell := Value(Struct{msg})
	return Iface{T: types.NewPointer(t), V: &cell}
}

// errorText returns the message of an error value (for %v formatting).
func (ex *Exec) errorText(fr *frame, v Iface) Value {
	if v.T == nil {
		return "<nil>"
	}
	ms := ex.w.prog.MethodSets.MethodSet(v.T)
	sel := ms.Lookup(nil, "Error")
	if sel == nil {
		return nil
	}
	fn := ex.w.prog.MethodValue(sel)
	if fn == nil {
		return nil
	}
	return ex.call(fr, 0, fn, []Value{v.V})
}

// sprintf implements the fmt verbs used by rulio for concrete and symbolic operands.
func (ex *Exec) sprintf(fr *frame, format Value, argv Value) Value {
	f, ok := format.(string)
	if !ok {
		return "<fmt>"
	}
	args, _ := argv.([]Value)
	acc := TStr("")
	ai := 0
	for i := 0; i < len(f); i++ {
		if f[i] != '%' {
			j := i
			for j < len(f) && f[j] != '%' {
				j++
			}
			acc = TConcat(acc, TStr(f[i:j]))
			i = j - 1
			continue
		}
		// parse verb
		j := i + 1
		for j < len(f) && strings.IndexByte("+-# 0123456789.", f[j]) >= 0 {
			j++
		}
		if j >= len(f) {
			break
		}
		verb := f[j]
		spec := f[i : j+1]
		i = j
		if verb == '%' {
			acc = TConcat(acc, TStr("%"))
			continue
		}
		if ai >= len(args) {
			acc = TConcat(acc, TStr("%!"+string(verb)+"(MISSING)"))
			continue
		}
		a := args[ai]
		ai++
		acc = TConcat(acc, ex.fmtArg(fr, spec, verb, a))
	}
	return simplify(acc)
}

func (ex *Exec) fmtArg(fr *frame, spec string, verb byte, a Value) *Term {
	if it, ok := a.(Iface); ok {
		if it.T == nil {
			return TStr("<nil>")
		}
		if verb == 'T' {
			return TStr(types.TypeString(it.T, nil))
		}
		if types.Implements(it.T, errorIface) && verb != 'T' && verb != 'p' {
			if s := ex.errorText(fr, it); s != nil {
				if _, isO := s.(*Opaque); !isO {
					return strTerm(s)
				}
			}
		}
		a = it.V
	}
	switch v := a.(type) {
	case string:
		switch verb {
		case 'q':
			return TStr(strconv.Quote(v))
		case 's', 'v':
			if spec == "%s" || spec == "%v" || spec == "%#v" || spec == "%+v" {
				if spec == "%#v" {
					return TStr(strconv.Quote(v))
				}
				return TStr(v)
			}
			return TStr(fmt.Sprintf(spec, v))
		}
		return TStr(fmt.Sprintf(spec, v))
	case int64:
		return TStr(fmt.Sprintf(spec, v))
	case float64:
		return TStr(fmt.Sprintf(spec, v))
	case bool:
		return TStr(fmt.Sprintf(spec, v))
	case *Term:
		switch v.Sort {
		case SString:
			if verb == 'q' || spec == "%#v" {
				// Go quoting: the string between double quotes when it holds neither a
				// quote nor a backslash (symbolic strings are printable ASCII, so nothing
				// else needs an escape); otherwise an unspecified function of the string
				plain := TAnd(TNot(TContains(v, TStr(`"`))), TNot(TContains(v, TStr(`\`))))
				quoted := ex.symString("quote("+v.String()+")", 2*ex.w.cfg.StrMaxLen+2)
				return TIte(plain, TConcat(TConcat(TStr(`"`), v), TStr(`"`)), quoted)
			}
			return v
		case SInt:
			return TFromInt(v)
		case SBool:
			return TIte(v, TStr("true"), TStr("false"))
		}
	case nil:
		return TStr("<nil>")
	}
	return TStr("<" + shortType(a) + ">")
}

func shortType(v Value) string {
	s := fmt.Sprintf("%T", v)
	return strings.TrimPrefix(s, "main.")
}

var errorIface = types.Universe.Lookup("error").Type().Underlying().(*types.Interface)

func (p *Program) sliceOfEmptyIface() types.Type {
	return types.NewSlice(types.NewInterfaceType(nil, nil).Complete())
}

func (p *Program) reflectValueType() types.Type {
	if rp := p.pkgs["reflect"]; rp != nil {
		return rp.Type("Value").Object().Type()
	}
	return types.Typ[types.Int]
}

// ifaceIntrinsic lets the engine answer interface method calls on engine-made values.
func (ex *Exec) ifaceIntrinsic(recv Iface, m *types.Func) *NativeFn {
	return nil
}

// ottoCode extracts the script text from what RunJavascript / otto.Run get as src.
func ottoCode(src Value) (string, bool) {
	switch v := src.(type) {
	case string:
		return v, true
	case Iface:
		switch p := v.V.(type) {
		case *Value:
			if p != nil {
				if s, ok := (*p).(string); ok {
					return s, true
				}
			}
		case string:
			return p, true
		}
	}
	return "", false
}

// ottoFamily classifies the scripts of the C14 protocol family by their (real JS) text.
// ottoSplit separates the library text CompileJavascript puts in front of a script from the
// script itself (the last line).
func ottoSplit(code string) (libs, script string) {
	if i := strings.LastIndex(code, "\n"); i >= 0 {
		return code[:i], code[i+1:]
	}
	return "", code
}

func ottoFamily(code string) string {
	_, code = ottoSplit(code)
	switch strings.TrimSpace(code) {
	case "1+1":
		return "value"
	case "throw 'x'":
		return "throw"
	case "while(true){}":
		return "loop"
	case "Env.sleep(SLOW); 1+1":
		return "slow"
	}
	return ""
}

func (ex *Exec) ottoValue(payload Value) Value {
	pkg := ex.w.pkgs["github.com/robertkrimen/otto"]
	st := zero(pkg.Type("Value").Object().Type()).(Struct)
	st[len(st)-1] = payload
	return st
}
