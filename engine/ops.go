package main

import (
	"fmt"
	"go/token"
	"go/types"
	"math"
	"strconv"
	"unicode/utf8"

	"golang.org/x/tools/go/ssa"
)

func (ex *Exec) unop(fr *frame, instr *ssa.UnOp, x Value) Value {
	if o, ok := x.(*Opaque); ok {
		if instr.Op == token.MUL || instr.Op == token.ARROW {
			ex.inconclusive("dereference of opaque pointer: " + o.Why + " at " + fr.posStr())
		}
		return o
	}
	switch instr.Op {
	case token.ARROW:
		return ex.chanRecv(fr, x, instr.CommaOk, instr.Type())
	case token.SUB:
		switch x := x.(type) {
		case int64:
			return wrapInt(instr.Type(), -x)
		case float64:
			return -x
		case *Term:
			if isFloat(instr.Type()) {
				return simplifyFloat(TNeg(x))
			}
			return ex.normInt(instr.Type(), TNeg(x))
		}
	case token.MUL:
		p := x.(*Value)
		if p == nil {
			ex.runtimePanic(fr, "invalid memory address or nil pointer dereference")
		}
		ex.memAccess(fr, p, false)
		return load(deref(instr.X.Type()), p)
	case token.NOT:
		switch x := x.(type) {
		case bool:
			return !x
		case *Term:
			return simplify(TNot(x))
		}
	case token.XOR:
		switch x := x.(type) {
		case int64:
			return wrapInt(instr.Type(), ^x)
		case *Term:
			_, signed := intBits(instr.Type())
			if signed {
				return ex.normInt(instr.Type(), TSub(TInt(-1), x))
			}
		}
	}
	ex.inconclusive(fmt.Sprintf("unsupported unary op %s %T at %s", instr.Op, x, fr.posStr()))
	return nil
}

// normInt keeps Go's wrap-around: if the mathematical result can leave the type's
// range the term is reduced modulo 2^w, otherwise it is used as is.
func (ex *Exec) normInt(t types.Type, r *Term) Value {
	if r.IsConst() {
		return wrapInt(t, r.I)
	}
	bits, signed := intBits(t)
	var lo, hi int64
	if signed {
		if bits == 64 {
			lo, hi = math.MinInt64, math.MaxInt64
		} else {
			lo, hi = -(1 << (bits - 1)), (1<<(bits-1))-1
		}
	} else {
		lo = 0
		if bits == 64 {
			hi = math.MaxInt64 // values above 2^63 are outside the encodable domain
		} else {
			hi = (1 << bits) - 1
		}
	}
	// interval says it fits (saturated bounds mean "unknown")
	fitsLo := r.Lo >= lo && r.Lo != ivMin
	fitsHi := r.Hi <= hi && r.Hi != ivMax
	if bits == 64 && signed {
		fitsLo = r.Lo != ivMin
		fitsHi = r.Hi != ivMax
	}
	if fitsLo && fitsHi {
		return r
	}
	// ask the solver whether overflow is feasible under pc
	var over *Term
	if bits == 64 {
		if signed {
			over = TOr(TLt(r, TInt(math.MinInt64)), TGt(r, TInt(math.MaxInt64)))
		} else {
			over = TOr(TLt(r, TInt(0)), TGt(r, TInt(math.MaxInt64)))
		}
	} else {
		over = TOr(TLt(r, TInt(lo)), TGt(r, TInt(hi)))
	}
	if over.IsConst() && !over.B {
		return r
	}
	res := ex.check(over)
	if res == Unsat {
		// record the bound so later interval checks succeed
		r2 := *r
		if r2.Lo < lo || r2.Lo == ivMin {
			r2.Lo = lo
		}
		if r2.Hi > hi || r2.Hi == ivMax {
			r2.Hi = hi
		}
		r2.str = r.str
		return &r2
	}
	ex.overflowSeen++
	if bits == 64 {
		// two's-complement wrap-around with constants beyond int64 (raw terms)
		two64 := &Term{Op: "raw", Sort: SInt, str: "18446744073709551616", Lo: ivMin, Hi: ivMax}
		two63 := &Term{Op: "raw", Sort: SInt, str: "9223372036854775808", Lo: ivMin, Hi: ivMax}
		m := mk("mod", SInt, r, two64)
		if signed {
			w := mk("ite", SInt, mk("<=", SBool, two63, m), mk("-", SInt, m, two64), m)
			w.Lo, w.Hi = ivMin, ivMax
			return w
		}
		// unsigned 64-bit values above 2^63 are outside the encodable domain
		ex.inconclusive("unsigned 64-bit overflow is feasible; not encoded")
	}
	m := TMod(r, TInt(1<<bits))
	if signed {
		half := int64(1) << (bits - 1)
		w := TIte(TGe(m, TInt(half)), TSub(m, TInt(1<<bits)), m)
		w.Lo, w.Hi = lo, hi
		return w
	}
	m.Lo, m.Hi = lo, hi
	return m
}

func (ex *Exec) binop(fr *frame, op token.Token, t types.Type, x, y Value) Value {
	if o, ok := x.(*Opaque); ok {
		return o
	}
	if o, ok := y.(*Opaque); ok {
		return o
	}
	switch op {
	case token.EQL:
		return simplify(ex.equals(fr, t, x, y))
	case token.NEQ:
		return simplify(TNot(ex.equals(fr, t, x, y)))
	}
	_, sx := x.(*Term)
	_, sy := y.(*Term)
	if (sx || sy) && ex.eqConst != nil {
		if c, ok := ex.resolve(x).(*Term); ok && c.IsConst() {
			x, sx = termToValue(c, t), false
		}
		if op != token.SHL && op != token.SHR {
			if c, ok := ex.resolve(y).(*Term); ok && c.IsConst() {
				y, sy = termToValue(c, t), false
			}
		}
	}
	if !sx && !sy {
		return ex.binopConcrete(fr, op, t, x, y)
	}
	ut := t.Underlying().(*types.Basic)
	switch {
	case ut.Info()&types.IsString != 0:
		a, b := strTerm(x), strTerm(y)
		if op != token.ADD && ex.w.cfg.StrOrder != "lex" {
			// string order abstracted to an arbitrary total order (see rankOf)
			ra, rb := ex.rankOf(a), ex.rankOf(b)
			switch op {
			case token.LSS:
				return simplify(TLt(ra, rb))
			case token.LEQ:
				return simplify(TLe(ra, rb))
			case token.GTR:
				return simplify(TLt(rb, ra))
			case token.GEQ:
				return simplify(TLe(rb, ra))
			}
		}
		switch op {
		case token.ADD:
			return simplify(TConcat(a, b))
		case token.LSS:
			return simplify(TLt(a, b))
		case token.LEQ:
			return simplify(TLe(a, b))
		case token.GTR:
			return simplify(TLt(b, a))
		case token.GEQ:
			return simplify(TLe(b, a))
		}
	case ut.Info()&types.IsBoolean != 0:
		// && and || are compiled to control flow; only == / != reach here
	case ut.Info()&types.IsFloat != 0:
		a, b := intTerm(x), intTerm(y)
		switch op {
		case token.ADD:
			return simplifyFloat(TAdd(a, b))
		case token.SUB:
			return simplifyFloat(TSub(a, b))
		case token.MUL:
			return simplifyFloat(TMul(a, b))
		case token.LSS:
			return simplify(TLt(a, b))
		case token.LEQ:
			return simplify(TLe(a, b))
		case token.GTR:
			return simplify(TGt(a, b))
		case token.GEQ:
			return simplify(TGe(a, b))
		case token.QUO:
			// a quotient that only feeds reports (a load figure, a rate) stays an
			// opaque value; using it in a branch or a comparison is inconclusive there
			return Opaque{"symbolic float quotient at " + fr.posStr()}
		}
	case ut.Info()&types.IsInteger != 0:
		a := intTerm(x)
		var b *Term
		if op == token.SHL || op == token.SHR {
			c, ok := y.(int64)
			if !ok {
				ex.inconclusive("symbolic shift count at " + fr.posStr())
			}
			if c < 0 || c > 62 {
				ex.inconclusive("shift count out of encodable range")
			}
			b = TInt(int64(1) << uint(c))
			if op == token.SHL {
				return ex.normInt(t, TMul(a, b))
			}
			if a.Lo >= 0 {
				return ex.normInt(t, TDivTrunc(a, b))
			}
			// arithmetic shift = floor division
			return ex.normInt(t, mk("div", SInt, a, b))
		}
		b = intTerm(y)
		switch op {
		case token.ADD:
			return ex.normInt(t, TAdd(a, b))
		case token.SUB:
			return ex.normInt(t, TSub(a, b))
		case token.MUL:
			return ex.normInt(t, TMul(a, b))
		case token.QUO, token.REM:
			z := TEq(b, TInt(0))
			if ex.branchV(z) {
				ex.runtimePanic(fr, "integer divide by zero")
			}
			if op == token.QUO {
				return ex.normInt(t, TDivTrunc(a, b))
			}
			return ex.normInt(t, TRemTrunc(a, b))
		case token.LSS:
			return simplify(TLt(a, b))
		case token.LEQ:
			return simplify(TLe(a, b))
		case token.GTR:
			return simplify(TGt(a, b))
		case token.GEQ:
			return simplify(TGe(a, b))
		case token.AND:
			// x & (2^k - 1) with constant mask and non-negative x
			if b.IsConst() && b.I >= 0 && (b.I&(b.I+1)) == 0 && a.Lo >= 0 {
				return simplify(TMod(a, TInt(b.I+1)))
			}
		}
	}
	ex.inconclusive(fmt.Sprintf("unsupported symbolic binary op %s on %s at %s", op, t, fr.posStr()))
	return nil
}

func (ex *Exec) binopConcrete(fr *frame, op token.Token, t types.Type, x, y Value) Value {
	switch xv := x.(type) {
	case int64:
		yv := y.(int64)
		uns := false
		if op != token.SHL && op != token.SHR {
			uns = isUnsigned(t)
		} else {
			uns = isUnsigned(t)
		}
		switch op {
		case token.ADD:
			return wrapInt(t, xv+yv)
		case token.SUB:
			return wrapInt(t, xv-yv)
		case token.MUL:
			return wrapInt(t, xv*yv)
		case token.QUO:
			if yv == 0 {
				ex.runtimePanic(fr, "integer divide by zero")
			}
			if uns {
				return wrapInt(t, int64(uint64(xv)/uint64(yv)))
			}
			return wrapInt(t, xv/yv)
		case token.REM:
			if yv == 0 {
				ex.runtimePanic(fr, "integer divide by zero")
			}
			if uns {
				return wrapInt(t, int64(uint64(xv)%uint64(yv)))
			}
			return wrapInt(t, xv%yv)
		case token.AND:
			return wrapInt(t, xv&yv)
		case token.OR:
			return wrapInt(t, xv|yv)
		case token.XOR:
			return wrapInt(t, xv^yv)
		case token.AND_NOT:
			return wrapInt(t, xv&^yv)
		case token.SHL:
			if yv < 0 {
				ex.runtimePanic(fr, "negative shift amount")
			}
			if yv >= 64 {
				return int64(0)
			}
			return wrapInt(t, xv<<uint(yv))
		case token.SHR:
			if yv < 0 {
				ex.runtimePanic(fr, "negative shift amount")
			}
			if uns {
				if yv >= 64 {
					return int64(0)
				}
				return wrapInt(t, int64(uint64(xv)>>uint(yv)))
			}
			if yv >= 64 {
				yv = 63
			}
			return wrapInt(t, xv>>uint(yv))
		case token.LSS:
			if uns {
				return uint64(xv) < uint64(yv)
			}
			return xv < yv
		case token.LEQ:
			if uns {
				return uint64(xv) <= uint64(yv)
			}
			return xv <= yv
		case token.GTR:
			if uns {
				return uint64(xv) > uint64(yv)
			}
			return xv > yv
		case token.GEQ:
			if uns {
				return uint64(xv) >= uint64(yv)
			}
			return xv >= yv
		}
	case float64:
		yv := y.(float64)
		is32 := t.Underlying().(*types.Basic).Kind() == types.Float32
		f := func(r float64) Value {
			if is32 {
				return float64(float32(r))
			}
			return r
		}
		switch op {
		case token.ADD:
			return f(xv + yv)
		case token.SUB:
			return f(xv - yv)
		case token.MUL:
			return f(xv * yv)
		case token.QUO:
			return f(xv / yv)
		case token.LSS:
			return xv < yv
		case token.LEQ:
			return xv <= yv
		case token.GTR:
			return xv > yv
		case token.GEQ:
			return xv >= yv
		}
	case string:
		yv := y.(string)
		switch op {
		case token.ADD:
			return xv + yv
		case token.LSS:
			return xv < yv
		case token.LEQ:
			return xv <= yv
		case token.GTR:
			return xv > yv
		case token.GEQ:
			return xv >= yv
		}
	case bool:
		yv := y.(bool)
		switch op {
		case token.AND:
			return xv && yv
		case token.OR:
			return xv || yv
		}
	case *JSONStr:
		if op == token.ADD {
			ex.inconclusive("concatenation with JSON token string")
		}
	}
	ex.inconclusive(fmt.Sprintf("unsupported binary op %s on %T,%T at %s", op, x, y, fr.posStr()))
	return nil
}

// equals builds the Bool term for x == y at static type t (t may be nil for
// dynamically typed comparison inside interfaces).
func (ex *Exec) equals(fr *frame, t types.Type, x, y Value) *Term {
	switch xv := x.(type) {
	case nil:
		return TBool(y == nil)
	case bool:
		switch yv := y.(type) {
		case bool:
			return TBool(xv == yv)
		case *Term:
			return TEq(TBool(xv), yv)
		}
	case int64:
		switch yv := y.(type) {
		case int64:
			return TBool(xv == yv)
		case *Term:
			return TEq(TInt(xv), yv)
		}
	case float64:
		switch yv := y.(type) {
		case float64:
			return TBool(xv == yv)
		case *Term:
			if xv != float64(int64(xv)) {
				return TFalse // symbolic numbers are integral
			}
			return TEq(TInt(int64(xv)), yv)
		}
	case string:
		switch yv := y.(type) {
		case string:
			return TBool(xv == yv)
		case *Term:
			return TEq(TStr(xv), yv)
		case *JSONStr:
			return TFalse
		}
	case *Term:
		switch yv := y.(type) {
		case *Term:
			return TEq(xv, yv)
		case bool:
			return TEq(xv, TBool(yv))
		case int64:
			return TEq(xv, TInt(yv))
		case float64:
			if yv != float64(int64(yv)) {
				return TFalse
			}
			return TEq(xv, TInt(int64(yv)))
		case string:
			return TEq(xv, TStr(yv))
		case *JSONStr:
			return TFalse
		}
	case *Value:
		return TBool(xv == y.(*Value))
	case *Chan:
		return TBool(xv == y.(*Chan))
	case *Map:
		// only comparison with nil is legal
		ym, _ := y.(*Map)
		return TBool(xv == ym)
	case []Value:
		yv, _ := y.([]Value)
		return TBool(xv == nil && yv == nil)
	case *ssa.Function:
		switch yv := y.(type) {
		case *ssa.Function:
			return TBool(xv == yv)
		default:
			return TBool(xv == nil && y == nil)
		}
	case *Closure:
		switch yv := y.(type) {
		case *ssa.Function:
			return TBool(xv == nil && yv == nil)
		case *Closure:
			return TBool(xv == yv)
		}
		return TFalse
	case *NativeFn:
		switch yv := y.(type) {
		case *ssa.Function:
			return TBool(xv == nil && yv == nil)
		}
		return TBool(x == y)
	case Struct:
		yv := y.(Struct)
		var st *types.Struct
		if t != nil {
			st, _ = t.Underlying().(*types.Struct)
		}
		acc := TTrue
		for i := range xv {
			var ft types.Type
			if st != nil {
				f := st.Field(i)
				if f.Name() == "_" {
					continue
				}
				ft = f.Type()
			}
			acc = TAnd(acc, ex.equals(fr, ft, xv[i], yv[i]))
		}
		return acc
	case Array:
		yv := y.(Array)
		var et types.Type
		if t != nil {
			et = t.Underlying().(*types.Array).Elem()
		}
		acc := TTrue
		for i := range xv {
			acc = TAnd(acc, ex.equals(fr, et, xv[i], yv[i]))
		}
		return acc
	case Iface:
		yv, ok := y.(Iface)
		if !ok {
			panic(fmt.Sprintf("equals: iface vs %T", y))
		}
		if !sameType(xv.T, yv.T) {
			return TFalse
		}
		if xv.T == nil {
			return TTrue
		}
		if !types.Comparable(xv.T) {
			panic(targetPanic{v: Iface{T: ex.w.runtimeErrorString, V: "runtime error: comparing uncomparable type " + xv.T.String()}, pos: fr.posStr()})
		}
		return ex.equals(fr, xv.T, xv.V, yv.V)
	case *JSONStr:
		if yv, ok := y.(*JSONStr); ok {
			return ex.deepEq(xv.V, yv.V)
		}
		return TFalse
	case *SymBytes, *JSONBytes:
		return TBool(y == nil)
	}
	panic(fmt.Sprintf("equals: unsupported %T vs %T", x, y))
}

func (ex *Exec) conv(fr *frame, tDst, tSrc types.Type, x Value) Value {
	if o, ok := x.(*Opaque); ok {
		return o
	}
	utSrc := tSrc.Underlying()
	utDst := tDst.Underlying()
	switch utSrc := utSrc.(type) {
	case *types.Pointer:
		return x // unsafe.Pointer conversions keep the cell
	case *types.Slice:
		// []byte / []rune -> string
		switch xs := x.(type) {
		case *SymBytes:
			return xs.S
		case *JSONBytes:
			return &JSONStr{xs.V}
		case []Value:
			switch utSrc.Elem().Underlying().(*types.Basic).Kind() {
			case types.Byte:
				b := make([]byte, 0, len(xs))
				for i := range xs {
					c, ok := xs[i].(int64)
					if !ok {
						ex.inconclusive("string(bytes) with symbolic byte")
					}
					b = append(b, byte(c))
				}
				return string(b)
			case types.Rune:
				r := make([]rune, 0, len(xs))
				for i := range xs {
					c, ok := xs[i].(int64)
					if !ok {
						ex.inconclusive("string(runes) with symbolic rune")
					}
					r = append(r, rune(c))
				}
				return string(r)
			}
		}
	case *types.Basic:
		// integer -> string
		if utSrc.Info()&types.IsInteger != 0 {
			if d, ok := utDst.(*types.Basic); ok && d.Info()&types.IsString != 0 {
				switch xv := x.(type) {
				case int64:
					return string(rune(xv))
				case *Term:
					return simplify(TFromCode(xv))
				}
			}
		}
		if utSrc.Info()&types.IsString != 0 {
			switch d := utDst.(type) {
			case *types.Slice:
				switch xv := x.(type) {
				case string:
					switch d.Elem().Underlying().(*types.Basic).Kind() {
					case types.Rune:
						var res []Value
						for _, r := range xv {
							res = append(res, int64(r))
						}
						return res
					case types.Byte:
						return strBytes(xv)
					}
				case *Term:
					return &SymBytes{xv}
				case *JSONStr:
					return &JSONBytes{xv.V}
				}
			case *types.Basic:
				if d.Info()&types.IsString != 0 {
					return x
				}
			}
			break
		}
		if utSrc.Kind() == types.UnsafePointer {
			return x
		}
		if utSrc.Info()&types.IsNumeric != 0 {
			d, ok := utDst.(*types.Basic)
			if !ok {
				break
			}
			srcFloat := utSrc.Info()&types.IsFloat != 0
			dstFloat := d.Info()&types.IsFloat != 0
			switch xv := x.(type) {
			case int64:
				if dstFloat {
					if utSrc.Info()&types.IsUnsigned != 0 {
						return float64(uint64(xv))
					}
					return float64(xv)
				}
				if d.Info()&types.IsInteger != 0 {
					return wrapInt(tDst, xv)
				}
			case float64:
				if dstFloat {
					if d.Kind() == types.Float32 {
						return float64(float32(xv))
					}
					return xv
				}
				if d.Info()&types.IsInteger != 0 {
					if math.IsNaN(xv) || math.IsInf(xv, 0) {
						return int64(math.MinInt64)
					}
					if d.Info()&types.IsUnsigned != 0 {
						return wrapInt(tDst, int64(uint64(xv)))
					}
					return wrapInt(tDst, int64(xv))
				}
			case *Term:
				if dstFloat {
					if srcFloat {
						return xv
					}
					// int -> float: exact within 2^53
					return xv
				}
				if d.Info()&types.IsInteger != 0 {
					return ex.normInt(tDst, xv)
				}
			}
		}
	}
	ex.inconclusive(fmt.Sprintf("unsupported conversion %s -> %s (%T) at %s", tSrc, tDst, x, fr.posStr()))
	return nil
}

// ---- iteration ----

type iter interface {
	next(ex *Exec, fr *frame) Tuple
}

type mapIter struct {
	m    *Map
	keys []*MapEntry
	i    int
}

func (it *mapIter) next(ex *Exec, fr *frame) Tuple {
	for it.i < len(it.keys) {
		e := it.keys[it.i]
		it.i++
		// entries deleted during iteration are skipped
		live := false
		for _, c := range it.m.Entries {
			if c == e {
				live = true
				break
			}
		}
		if live {
			return Tuple{true, e.K, e.V}
		}
	}
	return Tuple{false, nil, nil}
}

type stringIter struct {
	s string
	i int
}

func (it *stringIter) next(ex *Exec, fr *frame) Tuple {
	if it.i >= len(it.s) {
		return Tuple{false, int64(0), int64(0)}
	}
	r, n := utf8.DecodeRuneInString(it.s[it.i:])
	t := Tuple{true, int64(it.i), int64(r)}
	it.i += n
	return t
}

// symStringIter iterates a symbolic ASCII string position by position.
type symStringIter struct {
	s *Term
	i int64
}

func (it *symStringIter) next(ex *Exec, fr *frame) Tuple {
	more := TLt(TInt(it.i), TStrLen(it.s))
	if !ex.branchV(more) {
		return Tuple{false, int64(0), int64(0)}
	}
	c := simplify(TToCode(TStrAt(it.s, TInt(it.i))))
	t := Tuple{true, it.i, c}
	it.i++
	return t
}

func (ex *Exec) rangeIter(fr *frame, x Value, t types.Type) iter {
	switch x := x.(type) {
	case *Map:
		if x == nil {
			return &mapIter{m: &Map{}}
		}
		ex.mapAccess(fr, x, false)
		keys := make([]*MapEntry, len(x.Entries))
		copy(keys, x.Entries)
		if ex.w.cfg.PermuteMaps && len(keys) > 1 && len(keys) <= 3 && ex.permuteHere(fr) {
			perm := ex.choosePerm(len(keys))
			nk := make([]*MapEntry, len(keys))
			for i, p := range perm {
				nk[i] = keys[p]
			}
			keys = nk
		}
		return &mapIter{m: x, keys: keys}
	case string:
		return &stringIter{s: x}
	case *Term:
		return &symStringIter{s: x}
	case *Opaque:
		ex.inconclusive("range over opaque: " + x.Why)
	}
	panic(fmt.Sprintf("cannot range over %T", x))
}

// rankOf abstracts the lexicographic order of strings (str.< is very slow in the
// solvers) to an arbitrary total order: every compared string term gets an integer rank
// with (s = t) <=> (rank s = rank t); constants keep their real relative order. This is
// an over-approximation (more orders than the real one); counterexamples are confirmed
// natively, where the real order applies.
func (ex *Exec) rankOf(t *Term) *Term {
	key := t.String()
	if r, ok := ex.ranks[key]; ok {
		return r.rank
	}
	if ex.ranks == nil {
		ex.ranks = map[string]*rankEntry{}
	}
	name := "rank#" + strconv.Itoa(len(ex.ranks))
	r := TSymIntRange(name, 0, 1<<20)
	ex.symMap[name] = r
	ex.model[name] = int64(0)
	ex.addPC(mk("<=", SBool, TInt(0), r))
	ex.addPC(mk("<=", SBool, r, TInt(1<<20)))
	for _, k := range ex.rankOrder {
		o := ex.ranks[k]
		eq := TEq(t, o.term)
		if eq.IsConst() {
			if eq.B {
				ex.addPC(TEq(r, o.rank))
			} else if t.IsConst() && o.term.IsConst() {
				if t.S < o.term.S {
					ex.addPC(TLt(r, o.rank))
				} else {
					ex.addPC(TLt(o.rank, r))
				}
			} else {
				ex.addPC(TNot(TEq(r, o.rank)))
			}
			continue
		}
		ex.addPC(TEq(eq, TEq(r, o.rank)))
		// refinement: the order agrees with the real one on the first character
		// (the empty string is smallest), so that most models carry a genuine
		// lexicographic order and replay natively
		// (asserted only in assertion/model queries, like the printable constraint)
		ft, fo := firstCode(t), firstCode(o.term)
		ex.side = append(ex.side, TImplies(TLt(ft, fo), TLt(r, o.rank)), TImplies(TLt(fo, ft), TLt(o.rank, r)))
	}
	ex.ranks[key] = &rankEntry{term: t, rank: r}
	ex.rankOrder = append(ex.rankOrder, key)
	return r
}

func firstCode(t *Term) *Term { return TToCode(TStrAt(t, TInt(0))) }

type rankEntry struct {
	term, rank *Term
}

// termToValue converts a constant term to the concrete representation for type t.
func termToValue(c *Term, t types.Type) Value {
	switch c.Sort {
	case SBool:
		return c.B
	case SString:
		return c.S
	}
	if isFloat(t) {
		return float64(c.I)
	}
	return c.I
}

func fmtFloat(f float64) string { return strconv.FormatFloat(f, 'f', -1, 64) }
