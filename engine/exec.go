package main

// The symbolic interpreter proper: frames, instruction dispatch, calls, panics.
// Structure follows x/tools/go/ssa/interp; scalars may be *Term.

import (
	"fmt"
	"go/token"
	"go/types"
	"os"
	"runtime"
	"strings"

	"golang.org/x/tools/go/ssa"
)

// pathEnd is panicked (Go-level) to terminate the current path.
type pathEnd struct {
	kind string // infeasible | assume | inconclusive | cap | abort | crash | deadlock | violation-stop
	msg  string
}

// targetPanic is a panic of the interpreted program.
type targetPanic struct {
	v   Value
	pos string
}

type deferred struct {
	fn    Value
	args  []Value
	instr *ssa.Defer
	tail  *deferred
}

type frame struct {
	ex               *Exec
	g                *Goroutine
	caller           *frame
	fn               *ssa.Function
	block, prevBlock *ssa.BasicBlock
	env              []Value
	info             *fnInfo
	locals           []Value
	defers           *deferred
	result           Value
	panicking        bool
	panic            interface{}
	phitemps         []Value
	loops            map[*ssa.BasicBlock]int
	depth            int
	curInstr         ssa.Instruction
}

func (fr *frame) get(key ssa.Value) Value {
	switch key := key.(type) {
	case nil:
		return nil
	case *ssa.Function, *ssa.Builtin:
		return key
	case *ssa.Const:
		return constValue(key)
	case *ssa.Global:
		return fr.ex.global(key)
	}
	if i, ok := fr.info.idx[key]; ok {
		return fr.env[i]
	}
	panic(fmt.Sprintf("get: no value for %T: %v in %s", key, key.Name(), fr.fn))
}

func (fr *frame) posStr() string {
	if fr.curInstr != nil {
		if p := fr.curInstr.Pos(); p != token.NoPos {
			return fr.ex.w.prog.Fset.Position(p).String()
		}
	}
	return fr.fn.String()
}

func (ex *Exec) runtimePanic(fr *frame, msg string) {
	pos := ""
	if fr != nil {
		pos = fr.posStr()
	}
	panic(targetPanic{v: Iface{T: ex.w.runtimeErrorString, V: "runtime error: " + msg}, pos: pos})
}

func (ex *Exec) inconclusive(msg string) {
	panic(pathEnd{kind: "inconclusive", msg: msg})
}

func (ex *Exec) checkOpaque(fr *frame, vs ...Value) {
	for _, v := range vs {
		if o, ok := v.(*Opaque); ok {
			ex.inconclusive("opaque value used: " + o.Why + " at " + fr.posStr())
		}
	}
}

func (fr *frame) runDefer(d *deferred) {
	var ok bool
	defer func() {
		if !ok {
			r := recover()
			if pe, isEnd := r.(pathEnd); isEnd {
				panic(pe)
			}
			fr.panicking = true
			fr.panic = r
		}
	}()
	fr.ex.call(fr, d.instr.Pos(), d.fn, d.args)
	ok = true
}

func (fr *frame) runDefers() {
	for d := fr.defers; d != nil; d = d.tail {
		fr.runDefer(d)
	}
	fr.defers = nil
	if fr.panicking {
		panic(fr.panic)
	}
}

func (ex *Exec) lookupMethod(typ types.Type, meth *types.Func) *ssa.Function {
	return ex.w.prog.LookupMethod(typ, meth.Pkg(), meth.Name())
}

func (ex *Exec) step(fr *frame) {
	ex.steps++
	if ex.steps > ex.w.cfg.MaxSteps {
		panic(pathEnd{kind: "cap", msg: fmt.Sprintf("instruction budget %d exceeded", ex.w.cfg.MaxSteps)})
	}
	if ex.aborting {
		panic(pathEnd{kind: "abort"})
	}
}

func (ex *Exec) visitInstr(fr *frame, instr ssa.Instruction) (ret bool) {
	fr.curInstr = instr
	ex.step(fr)
	switch instr := instr.(type) {
	case *ssa.DebugRef:

	case *ssa.UnOp:
		fr.env[fr.info.idx[instr]] = ex.unop(fr, instr, fr.get(instr.X))

	case *ssa.BinOp:
		fr.env[fr.info.idx[instr]] = ex.binop(fr, instr.Op, instr.X.Type(), fr.get(instr.X), fr.get(instr.Y))

	case *ssa.Call:
		fn, args := ex.prepareCall(fr, &instr.Call)
		fr.env[fr.info.idx[instr]] = ex.call(fr, instr.Pos(), fn, args)

	case *ssa.ChangeInterface:
		fr.env[fr.info.idx[instr]] = fr.get(instr.X)

	case *ssa.ChangeType:
		fr.env[fr.info.idx[instr]] = fr.get(instr.X)

	case *ssa.Convert:
		fr.env[fr.info.idx[instr]] = ex.conv(fr, instr.Type(), instr.X.Type(), fr.get(instr.X))

	case *ssa.MultiConvert:
		fr.env[fr.info.idx[instr]] = ex.conv(fr, instr.Type(), instr.X.Type(), fr.get(instr.X))

	case *ssa.SliceToArrayPointer:
		x := fr.get(instr.X).([]Value)
		arr := deref(instr.Type()).Underlying().(*types.Array)
		if arr.Len() > int64(len(x)) {
			ex.runtimePanic(fr, "cannot convert slice to array pointer: length")
		}
		if x == nil {
			fr.env[fr.info.idx[instr]] = (*Value)(nil)
		} else {
			v := Value(Array(x[:arr.Len()]))
			fr.env[fr.info.idx[instr]] = &v
		}

	case *ssa.MakeInterface:
		v := fr.get(instr.X)
		if o, ok := v.(*Opaque); ok {
			fr.env[fr.info.idx[instr]] = o
		} else {
			fr.env[fr.info.idx[instr]] = Iface{T: instr.X.Type(), V: v}
		}

	case *ssa.Extract:
		tup := fr.get(instr.Tuple)
		if o, ok := tup.(*Opaque); ok {
			fr.env[fr.info.idx[instr]] = o
		} else {
			fr.env[fr.info.idx[instr]] = tup.(Tuple)[instr.Index]
		}

	case *ssa.Slice:
		fr.env[fr.info.idx[instr]] = ex.slice(fr, instr, fr.get(instr.X), fr.get(instr.Low), fr.get(instr.High), fr.get(instr.Max))

	case *ssa.Return:
		switch len(instr.Results) {
		case 0:
		case 1:
			fr.result = fr.get(instr.Results[0])
		default:
			var res []Value
			for _, r := range instr.Results {
				res = append(res, fr.get(r))
			}
			fr.result = Tuple(res)
		}
		fr.block = nil
		return true

	case *ssa.RunDefers:
		fr.runDefers()

	case *ssa.Panic:
		panic(targetPanic{v: fr.get(instr.X), pos: fr.posStr()})

	case *ssa.Send:
		ex.chanSend(fr, fr.get(instr.Chan), fr.get(instr.X))

	case *ssa.Store:
		addr := fr.get(instr.Addr)
		ex.checkOpaque(fr, addr)
		p := addr.(*Value)
		if p == nil {
			ex.runtimePanic(fr, "invalid memory address or nil pointer dereference")
		}
		ex.memAccess(fr, p, true)
		store(deref(instr.Addr.Type()), p, fr.get(instr.Val))

	case *ssa.If:
		c := fr.get(instr.Cond)
		ex.checkOpaque(fr, c)
		succ := 1
		switch c := c.(type) {
		case bool:
			if c {
				succ = 0
			}
		case *Term:
			if ex.branch(c) {
				succ = 0
			}
		default:
			panic(fmt.Sprintf("If: cond %T", c))
		}
		fr.prevBlock, fr.block = fr.block, fr.block.Succs[succ]
		ex.countLoop(fr)

	case *ssa.Jump:
		fr.prevBlock, fr.block = fr.block, fr.block.Succs[0]
		ex.countLoop(fr)

	case *ssa.Defer:
		fn, args := ex.prepareCall(fr, &instr.Call)
		defers := &fr.defers
		if instr.DeferStack != nil {
			if into := fr.get(instr.DeferStack); into != nil {
				defers = into.(**deferred)
			}
		}
		*defers = &deferred{fn: fn, args: args, instr: instr, tail: *defers}

	case *ssa.Go:
		fn, args := ex.prepareCall(fr, &instr.Call)
		ex.spawn(fr, instr.Pos(), fn, args)

	case *ssa.MakeChan:
		sz := fr.get(instr.Size)
		n, ok := sz.(int64)
		if !ok {
			ex.inconclusive("symbolic channel size")
		}
		fr.env[fr.info.idx[instr]] = ex.newChan(int(n), instr.Type().Underlying().(*types.Chan).Elem())

	case *ssa.Alloc:
		var addr *Value
		if instr.Heap {
			addr = new(Value)
			fr.env[fr.info.idx[instr]] = addr
		} else {
			addr = fr.env[fr.info.idx[instr]].(*Value)
		}
		*addr = zero(deref(instr.Type()))

	case *ssa.MakeSlice:
		c, ok1 := fr.get(instr.Cap).(int64)
		l, ok2 := fr.get(instr.Len).(int64)
		if !ok1 || !ok2 {
			ex.inconclusive("symbolic slice length at " + fr.posStr())
		}
		if l < 0 || c < l || c > 1<<24 {
			ex.runtimePanic(fr, "makeslice: len out of range")
		}
		sl := make([]Value, c)
		tElt := instr.Type().Underlying().(*types.Slice).Elem()
		for i := range sl {
			sl[i] = zero(tElt)
		}
		fr.env[fr.info.idx[instr]] = sl[:l]

	case *ssa.MakeMap:
		mt := instr.Type().Underlying().(*types.Map)
		fr.env[fr.info.idx[instr]] = &Map{KeyT: mt.Key(), ElemT: mt.Elem()}

	case *ssa.Range:
		fr.env[fr.info.idx[instr]] = ex.rangeIter(fr, fr.get(instr.X), instr.X.Type())

	case *ssa.Next:
		fr.env[fr.info.idx[instr]] = fr.get(instr.Iter).(iter).next(ex, fr)

	case *ssa.FieldAddr:
		x := fr.get(instr.X)
		ex.checkOpaque(fr, x)
		p := x.(*Value)
		if p == nil {
			ex.runtimePanic(fr, "invalid memory address or nil pointer dereference")
		}
		fr.env[fr.info.idx[instr]] = &(*p).(Struct)[instr.Field]

	case *ssa.Field:
		x := fr.get(instr.X)
		ex.checkOpaque(fr, x)
		fr.env[fr.info.idx[instr]] = x.(Struct)[instr.Field]

	case *ssa.IndexAddr:
		x := fr.get(instr.X)
		idx := fr.get(instr.Index)
		ex.checkOpaque(fr, x, idx)
		switch x := x.(type) {
		case []Value:
			i := ex.concreteIndex(fr, idx, len(x))
			fr.env[fr.info.idx[instr]] = &x[i]
		case *Value:
			if x == nil {
				ex.runtimePanic(fr, "invalid memory address or nil pointer dereference")
			}
			a := (*x).(Array)
			i := ex.concreteIndex(fr, idx, len(a))
			fr.env[fr.info.idx[instr]] = &a[i]
		case *SymBytes, *JSONBytes:
			ex.inconclusive("IndexAddr on symbolic byte slice at " + fr.posStr())
		default:
			panic(fmt.Sprintf("unexpected x type in IndexAddr: %T", x))
		}

	case *ssa.Index:
		x := fr.get(instr.X)
		idx := fr.get(instr.Index)
		ex.checkOpaque(fr, x, idx)
		switch x := x.(type) {
		case Array:
			fr.env[fr.info.idx[instr]] = x[ex.concreteIndex(fr, idx, len(x))]
		case string:
			if it, ok := idx.(*Term); ok {
				fr.env[fr.info.idx[instr]] = ex.symStringIndex(fr, TStr(x), it)
			} else {
				i := ex.concreteIndex(fr, idx, len(x))
				fr.env[fr.info.idx[instr]] = int64(x[i])
			}
		case *Term:
			fr.env[fr.info.idx[instr]] = ex.symStringIndex(fr, x, intTerm(idx))
		default:
			panic(fmt.Sprintf("unexpected x type in Index: %T", x))
		}

	case *ssa.Lookup:
		fr.env[fr.info.idx[instr]] = ex.lookup(fr, instr, fr.get(instr.X), fr.get(instr.Index))

	case *ssa.MapUpdate:
		m := fr.get(instr.Map)
		ex.checkOpaque(fr, m)
		mm := m.(*Map)
		if mm == nil {
			panic(targetPanic{v: Iface{T: ex.w.runtimeErrorString, V: "assignment to entry in nil map"}, pos: fr.posStr()})
		}
		ex.mapAccess(fr, mm, true)
		ex.mapUpdate(fr, mm, fr.get(instr.Key), fr.get(instr.Value))

	case *ssa.TypeAssert:
		fr.env[fr.info.idx[instr]] = ex.typeAssert(fr, instr, fr.get(instr.X))

	case *ssa.MakeClosure:
		var bindings []Value
		for _, binding := range instr.Bindings {
			bindings = append(bindings, fr.get(binding))
		}
		fr.env[fr.info.idx[instr]] = &Closure{instr.Fn.(*ssa.Function), bindings}

	case *ssa.Phi:
		panic("unreachable: phi")

	case *ssa.Select:
		fr.env[fr.info.idx[instr]] = ex.selectStmt(fr, instr)

	default:
		panic(fmt.Sprintf("unexpected instruction: %T", instr))
	}
	return false
}

func (ex *Exec) countLoop(fr *frame) {
	// back edge heuristic: target block index <= source block index
	if fr.block.Index <= fr.prevBlock.Index {
		if fr.loops == nil {
			fr.loops = map[*ssa.BasicBlock]int{}
		}
		fr.loops[fr.block]++
		if fr.loops[fr.block] > ex.w.cfg.MaxLoop {
			panic(pathEnd{kind: "cap", msg: fmt.Sprintf("loop unrolling cap %d at %s", ex.w.cfg.MaxLoop, fr.posStr())})
		}
	}
}

func (ex *Exec) concreteIndex(fr *frame, idx Value, n int) int {
	switch i := idx.(type) {
	case int64:
		if i < 0 || i >= int64(n) {
			ex.runtimePanic(fr, fmt.Sprintf("index out of range [%d] with length %d", i, n))
		}
		return int(i)
	case *Term:
		// fork over feasible concrete positions (small containers only)
		if n > 16 {
			ex.inconclusive("symbolic index into container of length > 16 at " + fr.posStr())
		}
		guards := make([]*Term, 0, n+1)
		for k := 0; k < n; k++ {
			guards = append(guards, TEq(i, TInt(int64(k))))
		}
		guards = append(guards, TOr(TLt(i, TInt(0)), TGe(i, TInt(int64(n)))))
		c := ex.decide("index", guards)
		if c == n {
			ex.runtimePanic(fr, "index out of range (symbolic)")
		}
		return c
	}
	panic(fmt.Sprintf("index %T", idx))
}

func (ex *Exec) symStringIndex(fr *frame, s *Term, i *Term) Value {
	inb := TAnd(TGe(i, TInt(0)), TLt(i, TStrLen(s)))
	if !ex.branchV(inb) {
		ex.runtimePanic(fr, "index out of range (string)")
	}
	return simplify(TToCode(TStrAt(s, i)))
}

// branchV decides a bool Value.
func (ex *Exec) branchV(c *Term) bool {
	if c.IsConst() {
		return c.B
	}
	return ex.branch(c)
}

func (ex *Exec) prepareCall(fr *frame, call *ssa.CallCommon) (fn Value, args []Value) {
	v := fr.get(call.Value)
	if call.Method == nil {
		fn = v
	} else {
		ex.checkOpaque(fr, v)
		recv := v.(Iface)
		if recv.T == nil {
			ex.runtimePanic(fr, "invalid memory address or nil pointer dereference (method call on nil interface "+call.Method.Name()+")")
		}
		if nf := ex.ifaceIntrinsic(recv, call.Method); nf != nil {
			fn = nf
		} else if f := ex.lookupMethod(recv.T, call.Method); f == nil {
			panic(fmt.Sprintf("method set for dynamic type %v does not contain %s", recv.T, call.Method))
		} else {
			fn = f
		}
		args = append(args, recv.V)
	}
	for _, arg := range call.Args {
		args = append(args, fr.get(arg))
	}
	return
}

func (ex *Exec) call(caller *frame, callpos token.Pos, fn Value, args []Value) Value {
	switch fn := fn.(type) {
	case *ssa.Function:
		if fn == nil {
			ex.runtimePanic(caller, "call of nil function")
		}
		return ex.callSSA(caller, callpos, fn, args, nil)
	case *Closure:
		return ex.callSSA(caller, callpos, fn.Fn, args, fn.Env)
	case *ssa.Builtin:
		return ex.callBuiltin(caller, callpos, fn, args)
	case *NativeFn:
		return fn.Fn(ex, caller, args)
	case *Opaque:
		ex.inconclusive("call of opaque function value: " + fn.Why)
	}
	panic(fmt.Sprintf("cannot call %T", fn))
}

func (ex *Exec) callSSA(caller *frame, callpos token.Pos, fn *ssa.Function, args []Value, env []Value) Value {
	fr := &frame{ex: ex, caller: caller, fn: fn}
	if caller != nil {
		fr.depth = caller.depth + 1
		fr.g = caller.g
	} else {
		fr.g = ex.cur
	}
	if fr.depth > ex.w.cfg.MaxDepth {
		panic(pathEnd{kind: "cap", msg: fmt.Sprintf("call depth cap %d exceeded in %s", ex.w.cfg.MaxDepth, fn)})
	}
	info := ex.w.fnInfoOf(fn)
	skip := ex.skipIntrinsic == fn
	if skip {
		ex.skipIntrinsic = nil
	}
	if fn.Parent() == nil && !(skip && fn.Blocks != nil) {
		if ex.inInit && info.isPkgInit && !info.initWanted {
			return nil // initialiser of a package that is not interpreted
		}
		if info.intr != nil {
			ex.w.noteStub(info)
			fr.curInstr = nil
			return info.intr(ex, fr, args)
		}
		if fn.Blocks == nil {
			ex.w.noteOpaque(info)
			return &Opaque{"no code for " + info.name}
		}
		if !info.interp {
			ex.w.noteOpaque(info)
			return &Opaque{"not interpreted: " + info.name}
		}
	}
	if info.generic {
		return &Opaque{"uninstantiated generic " + info.name}
	}
	ex.w.noteFn(info)
	fr.info = info
	fr.env = make([]Value, info.n)
	fr.block = fn.Blocks[0]
	fr.locals = make([]Value, len(fn.Locals))
	for i, l := range fn.Locals {
		fr.locals[i] = zero(deref(l.Type()))
		fr.env[fr.info.idx[l]] = &fr.locals[i]
	}
	for i, p := range fn.Params {
		fr.env[fr.info.idx[p]] = args[i]
	}
	for i, fv := range fn.FreeVars {
		fr.env[fr.info.idx[fv]] = env[i]
	}
	for fr.block != nil {
		ex.runFrame(fr)
	}
	return fr.result
}

func (ex *Exec) runFrame(fr *frame) {
	defer func() {
		if fr.block == nil {
			return // normal return
		}
		r := recover()
		switch r := r.(type) {
		case pathEnd:
			panic(r)
		case targetPanic:
			fr.panicking = true
			fr.panic = r
		case nil:
			return
		default:
			// engine bug or unsupported construct: never a target panic
			if re, ok := r.(runtime.Error); ok {
				buf := make([]byte, 4096)
				n := runtime.Stack(buf, false)
				panic(pathEnd{kind: "engine-error", msg: re.Error() + " in " + fr.fn.String() + " at " + fr.posStr() + "\n" + string(buf[:n])})
			}
			panic(pathEnd{kind: "engine-error", msg: fmt.Sprint(r) + " in " + fr.fn.String() + " at " + fr.posStr()})
		}
		fr.runDefers()
		fr.block = fr.fn.Recover
		if fr.block == nil {
			// recovered panic in a function without named results: return zero values
			fr.result = zero(fr.fn.Signature.Results())
			if fr.fn.Signature.Results().Len() == 0 {
				fr.result = nil
			}
		}
	}()
	for {
		nonPhis := ex.executePhis(fr)
		for _, instr := range nonPhis {
			if ex.visitInstr(fr, instr) {
				return
			}
		}
	}
}

func (ex *Exec) executePhis(fr *frame) []ssa.Instruction {
	firstNonPhi := -1
	for i, instr := range fr.block.Instrs {
		if _, ok := instr.(*ssa.Phi); !ok {
			firstNonPhi = i
			break
		}
	}
	nonPhis := fr.block.Instrs[firstNonPhi:]
	if firstNonPhi > 0 {
		phis := fr.block.Instrs[:firstNonPhi]
		predIndex := -1
		for i, p := range fr.block.Preds {
			if p == fr.prevBlock {
				predIndex = i
				break
			}
		}
		fr.phitemps = fr.phitemps[:0]
		for _, phi := range phis {
			phi := phi.(*ssa.Phi)
			fr.phitemps = append(fr.phitemps, fr.get(phi.Edges[predIndex]))
		}
		for i, phi := range phis {
			fr.env[fr.info.idx[phi.(*ssa.Phi)]] = fr.phitemps[i]
		}
	}
	return nonPhis
}

func (ex *Exec) doRecover(caller *frame) Value {
	if caller != nil && !caller.panicking && caller.caller != nil && caller.caller.panicking {
		caller.caller.panicking = false
		p := caller.caller.panic
		caller.caller.panic = nil
		switch p := p.(type) {
		case targetPanic:
			return p.v
		default:
			panic(fmt.Sprintf("unexpected panic type %T in target call to recover()", p))
		}
	}
	return Iface{}
}

func (ex *Exec) typeAssert(fr *frame, instr *ssa.TypeAssert, x Value) Value {
	if o, ok := x.(*Opaque); ok {
		ex.inconclusive("type assertion on opaque value: " + o.Why + " at " + fr.posStr())
	}
	itf := x.(Iface)
	var v Value
	fail := 0
	if itf.T == nil {
		fail = 1
	} else if idst, ok := instr.AssertedType.Underlying().(*types.Interface); ok {
		v = itf
		if meth, _ := types.MissingMethod(itf.T, idst, true); meth != nil {
			fail = 2
		}
	} else if types.Identical(itf.T, instr.AssertedType) {
		v = itf.V
	} else {
		fail = 3
	}
	if fail != 0 {
		if !instr.CommaOk {
			var err string
			switch fail {
			case 1:
				err = fmt.Sprintf("interface conversion: interface is nil, not %s", instr.AssertedType)
			case 2:
				err = fmt.Sprintf("interface conversion: %v is not %v: missing method", itf.T, instr.AssertedType)
			default:
				err = fmt.Sprintf("interface conversion: interface is %s, not %s", itf.T, instr.AssertedType)
			}
			panic(targetPanic{v: Iface{T: ex.w.runtimeErrorString, V: err}, pos: fr.posStr()})
		}
		return Tuple{zero(instr.AssertedType), false}
	}
	if instr.CommaOk {
		return Tuple{v, true}
	}
	return v
}

func (ex *Exec) callBuiltin(caller *frame, callpos token.Pos, fn *ssa.Builtin, args []Value) Value {
	switch fn.Name() {
	case "append":
		if len(args) == 1 {
			return args[0]
		}
		ex.checkOpaque(caller, args[0], args[1])
		switch a1 := args[1].(type) {
		case string:
			arg0, ok := args[0].([]Value)
			if !ok {
				ex.inconclusive("append to symbolic bytes")
			}
			for i := 0; i < len(a1); i++ {
				arg0 = append(arg0, int64(a1[i]))
			}
			return arg0
		case *Term:
			if a0, ok := args[0].([]Value); ok && len(a0) == 0 {
				return &SymBytes{a1}
			}
			ex.inconclusive("append symbolic string to bytes")
		case *SymBytes:
			if a0, ok := args[0].([]Value); ok && len(a0) == 0 {
				return a1
			}
			if a0, ok := args[0].(*SymBytes); ok {
				return &SymBytes{TConcat(a0.S, a1.S)}
			}
			ex.inconclusive("append symbolic bytes")
		case []Value:
			if a0, ok := args[0].(*SymBytes); ok {
				// append concrete bytes to symbolic
				bs := make([]byte, len(a1))
				for i, b := range a1 {
					c, ok := b.(int64)
					if !ok {
						ex.inconclusive("append symbolic byte")
					}
					bs[i] = byte(c)
				}
				return &SymBytes{TConcat(a0.S, TStr(string(bs)))}
			}
			return append(args[0].([]Value), a1...)
		}
		panic(fmt.Sprintf("append: %T %T", args[0], args[1]))

	case "copy":
		src := args[1]
		if s, ok := src.(string); ok {
			bs := make([]Value, len(s))
			for i := 0; i < len(s); i++ {
				bs[i] = int64(s[i])
			}
			src = bs
		}
		d, ok1 := args[0].([]Value)
		s, ok2 := src.([]Value)
		if !ok1 || !ok2 {
			ex.inconclusive("copy on symbolic bytes")
		}
		return int64(copy(d, s))

	case "close":
		ex.chanClose(caller, args[0])
		return nil

	case "delete":
		ex.checkOpaque(caller, args[0])
		m := args[0].(*Map)
		if m != nil {
			ex.mapAccess(caller, m, true)
			ex.mapDelete(caller, m, args[1])
		}
		return nil

	case "print", "println":
		if debugPrint {
			fmt.Fprintln(os.Stderr, append([]interface{}{"[harness]"}, valuesToIfaces(args)...)...)
		}
		return nil

	case "len":
		switch x := args[0].(type) {
		case string:
			return int64(len(x))
		case *Term:
			return simplify(TStrLen(x))
		case Array:
			return int64(len(x))
		case *Value:
			return int64(len((*x).(Array)))
		case []Value:
			return int64(len(x))
		case *Map:
			if x == nil {
				return int64(0)
			}
			ex.mapAccess(caller, x, false)
			return int64(len(x.Entries))
		case *Chan:
			if x == nil {
				return int64(0)
			}
			return int64(len(x.buf))
		case *SymBytes:
			return simplify(TStrLen(x.S))
		case *JSONBytes:
			return int64(2) // non-empty token
		case *JSONStr:
			return int64(2)
		case *Opaque:
			return x
		default:
			panic(fmt.Sprintf("len: illegal operand: %T", x))
		}

	case "cap":
		switch x := args[0].(type) {
		case Array:
			return int64(cap(x))
		case *Value:
			return int64(cap((*x).(Array)))
		case []Value:
			return int64(cap(x))
		case *Chan:
			if x == nil {
				return int64(0)
			}
			return int64(x.cap)
		default:
			panic(fmt.Sprintf("cap: illegal operand: %T", x))
		}

	case "min", "max":
		x := args[0]
		t := fn.Type().(*types.Signature).Params().At(0).Type()
		for _, y := range args[1:] {
			op := token.LSS
			if fn.Name() == "max" {
				op = token.GTR
			}
			c := ex.binop(caller, op, t, y, x)
			take := false
			switch c := c.(type) {
			case bool:
				take = c
			case *Term:
				take = ex.branch(c)
			}
			if take {
				x = y
			}
		}
		return x

	case "panic":
		panic(targetPanic{v: args[0], pos: caller.posStr()})

	case "recover":
		return ex.doRecover(caller)

	case "ssa:wrapnilchk":
		recv := args[0]
		if recv.(*Value) == nil {
			ex.runtimePanic(caller, fmt.Sprintf("value method %v.%v called using nil pointer", args[1], args[2]))
		}
		return recv

	case "ssa:deferstack":
		return &caller.defers

	case "clear":
		switch x := args[0].(type) {
		case *Map:
			if x != nil {
				x.Entries = nil
			}
		}
		return nil
	}
	panic("unknown built-in: " + fn.Name())
}

func (ex *Exec) slice(fr *frame, instr *ssa.Slice, x, lo, hi, max Value) Value {
	ex.checkOpaque(fr, x, lo, hi, max)
	switch xs := x.(type) {
	case *Term:
		return ex.symSubstr(fr, xs, lo, hi)
	case *SymBytes:
		r := ex.symSubstr(fr, xs.S, lo, hi)
		switch r := r.(type) {
		case string:
			return strBytes(r)
		case *Term:
			return &SymBytes{r}
		}
	case *JSONBytes:
		if lo == nil && hi == nil {
			return xs
		}
		ex.inconclusive("slicing JSON token")
	case string:
		if isSym(lo) || isSym(hi) {
			return ex.symSubstr(fr, TStr(xs), lo, hi)
		}
	}
	var Len, Cap int
	switch x := x.(type) {
	case string:
		Len = len(x)
	case []Value:
		Len = len(x)
		Cap = cap(x)
	case *Value:
		if x == nil {
			ex.runtimePanic(fr, "nil pointer dereference (slice of nil array pointer)")
		}
		a := (*x).(Array)
		Len = len(a)
		Cap = cap(a)
	}
	conc := func(v Value, def int64) int64 {
		if v == nil {
			return def
		}
		switch c := v.(type) {
		case int64:
			return c
		case *Term:
			// case-split a symbolic bound over the (small) container
			n := Len
			if Cap > n {
				n = Cap
			}
			if n > 32 {
				ex.inconclusive("symbolic slice bound into container of length > 32 at " + fr.posStr())
			}
			guards := make([]*Term, 0, n+2)
			for k := 0; k <= n; k++ {
				guards = append(guards, TEq(c, TInt(int64(k))))
			}
			guards = append(guards, TOr(TLt(c, TInt(0)), TGt(c, TInt(int64(n)))))
			k := ex.decide("slicebound", guards)
			if k == n+1 {
				ex.runtimePanic(fr, "slice bounds out of range (symbolic)")
			}
			return int64(k)
		}
		ex.inconclusive("unsupported slice bound at " + fr.posStr())
		return 0
	}
	l := conc(lo, 0)
	h := conc(hi, int64(Len))
	m := conc(max, int64(Cap))
	switch x := x.(type) {
	case string:
		if l < 0 || h < l || h > int64(len(x)) {
			ex.runtimePanic(fr, fmt.Sprintf("slice bounds out of range [%d:%d] with length %d", l, h, len(x)))
		}
		return x[l:h]
	case []Value:
		if l < 0 || h < l || m < h || m > int64(cap(x)) {
			ex.runtimePanic(fr, fmt.Sprintf("slice bounds out of range [%d:%d:%d] with capacity %d", l, h, m, cap(x)))
		}
		return x[l:h:m]
	case *Value:
		a := (*x).(Array)
		if l < 0 || h < l || m < h || m > int64(cap(a)) {
			ex.runtimePanic(fr, "slice bounds out of range")
		}
		return []Value(a)[l:h:m]
	}
	panic(fmt.Sprintf("slice: unexpected X type: %T", x))
}

func strBytes(s string) []Value {
	bs := make([]Value, len(s))
	for i := 0; i < len(s); i++ {
		bs[i] = int64(s[i])
	}
	return bs
}

func (ex *Exec) symSubstr(fr *frame, s *Term, lo, hi Value) Value {
	// s[k:] of a concatenation that starts with a constant of length >= k
	if hi == nil && s.Op == "str.++" && s.Args[0].IsConst() {
		if k, ok := lo.(int64); ok && k >= 0 && k <= int64(len(s.Args[0].S)) {
			return simplify(joinParts(s.Args[0].S[k:], s.Args[1:]))
		}
	}
	var l, h *Term
	if lo == nil {
		l = TInt(0)
	} else {
		l = intTerm(lo)
	}
	n := TStrLen(s)
	if hi == nil {
		h = n
	} else {
		h = intTerm(hi)
	}
	ok := TAnd(TLe(TInt(0), l), TLe(l, h), TLe(h, n))
	if !ex.branchV(ok) {
		ex.runtimePanic(fr, "slice bounds out of range (string)")
	}
	return simplify(TSubstr(s, l, TSub(h, l)))
}

func fnName(fn *ssa.Function) string { return fn.String() }

func pkgPathOf(fn *ssa.Function) string {
	if fn.Pkg != nil {
		return fn.Pkg.Pkg.Path()
	}
	if fn.Origin() != nil && fn.Origin().Pkg != nil {
		return fn.Origin().Pkg.Pkg.Path()
	}
	if recv := fn.Signature.Recv(); recv != nil {
		t := recv.Type()
		if p, ok := t.(*types.Pointer); ok {
			t = p.Elem()
		}
		if n, ok := t.(*types.Named); ok && n.Obj().Pkg() != nil {
			return n.Obj().Pkg().Path()
		}
	}
	if fn.Parent() != nil {
		return pkgPathOf(fn.Parent())
	}
	s := fn.String()
	if i := strings.LastIndex(s, "."); i > 0 {
		return strings.TrimLeft(s[:i], "(*")
	}
	return ""
}

// callBody runs fn's SSA body even though an intrinsic is registered for it.
func (ex *Exec) callBody(caller *frame, fn *ssa.Function, args []Value) Value {
	ex.skipIntrinsic = fn
	return ex.callSSA(caller.caller, 0, fn, args, nil)
}

var debugPrint = os.Getenv("VERIF_PRINT") != ""

func valuesToIfaces(vs []Value) []interface{} {
	out := make([]interface{}, len(vs))
	for i, v := range vs {
		if t, ok := v.(*Term); ok {
			out[i] = t.String()
		} else {
			out[i] = v
		}
	}
	return out
}
