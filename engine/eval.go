package main

import (
	"strconv"
	"strings"
)

// evalTerm evaluates t under a model (symbol name -> bool/int64/string). ok=false if
// something cannot be evaluated (missing symbol, raw regex, ...).
func evalTerm(t *Term, m map[string]interface{}) (interface{}, bool) {
	switch t.Op {
	case "const":
		switch t.Sort {
		case SBool:
			return t.B, true
		case SInt:
			return t.I, true
		default:
			return t.S, true
		}
	case "sym":
		v, ok := m[t.S]
		return v, ok
	case "raw":
		return nil, false
	}
	args := make([]interface{}, len(t.Args))
	for i, a := range t.Args {
		// short-circuit for and/or to tolerate unevaluable branches
		v, ok := evalTerm(a, m)
		if !ok {
			if t.Op == "and" || t.Op == "or" {
				args[i] = nil
				continue
			}
			return nil, false
		}
		args[i] = v
	}
	I := func(i int) int64 { return args[i].(int64) }
	S := func(i int) string { return args[i].(string) }
	switch t.Op {
	case "not":
		return !args[0].(bool), true
	case "and":
		unk := false
		for _, a := range args {
			if a == nil {
				unk = true
			} else if !a.(bool) {
				return false, true
			}
		}
		return true, !unk
	case "or":
		unk := false
		for _, a := range args {
			if a == nil {
				unk = true
			} else if a.(bool) {
				return true, true
			}
		}
		return false, !unk
	case "=":
		return args[0] == args[1], true
	case "ite":
		if args[0].(bool) {
			return args[1], true
		}
		return args[2], true
	case "+":
		var s int64
		for i := range args {
			s += I(i)
		}
		return s, true
	case "-":
		if len(args) == 1 {
			return -I(0), true
		}
		return I(0) - I(1), true
	case "*":
		return I(0) * I(1), true
	case "div":
		b := I(1)
		if b == 0 {
			return nil, false
		}
		a := I(0)
		q := a / b
		r := a % b
		if r < 0 {
			if b > 0 {
				q--
			} else {
				q++
			}
		}
		return q, true
	case "mod":
		b := I(1)
		if b == 0 {
			return nil, false
		}
		r := I(0) % b
		if r < 0 {
			if b > 0 {
				r += b
			} else {
				r -= b
			}
		}
		return r, true
	case "<":
		return I(0) < I(1), true
	case "<=":
		return I(0) <= I(1), true
	case "str.<":
		return S(0) < S(1), true
	case "str.<=":
		return S(0) <= S(1), true
	case "str.++":
		var b strings.Builder
		for i := range args {
			b.WriteString(S(i))
		}
		return b.String(), true
	case "str.len":
		return int64(len(S(0))), true
	case "str.prefixof":
		return strings.HasPrefix(S(1), S(0)), true
	case "str.suffixof":
		return strings.HasSuffix(S(1), S(0)), true
	case "str.contains":
		return strings.Contains(S(0), S(1)), true
	case "str.indexof":
		if I(2) != 0 {
			return nil, false
		}
		return int64(strings.Index(S(0), S(1))), true
	case "str.substr":
		s, o, n := S(0), I(1), I(2)
		if o < 0 || o >= int64(len(s)) || n <= 0 {
			return "", true
		}
		e := o + n
		if e > int64(len(s)) {
			e = int64(len(s))
		}
		return s[o:e], true
	case "str.to_code":
		s := S(0)
		if len(s) == 1 {
			return int64(s[0]), true
		}
		return int64(-1), true
	case "str.from_code":
		c := I(0)
		if c >= 0 && c < 128 {
			return string(rune(c)), true
		}
		return nil, false
	case "fmtint":
		return strconv.FormatInt(I(0), 10), true
	case "str.from_int":
		if I(0) < 0 {
			return "", true
		}
		return strconv.FormatInt(I(0), 10), true
	case "str.in_re":
		// only the printable-ASCII side constraint is used
		if len(t.Args) == 2 && t.Args[1] == printableRe {
			for _, c := range []byte(S(0)) {
				if c < ' ' || c > '~' {
					return false, true
				}
			}
			return true, true
		}
		return nil, false
	}
	return nil, false
}

func evalBool(t *Term, m map[string]interface{}) (val, ok bool) {
	defer func() {
		if r := recover(); r != nil {
			val, ok = false, false
		}
	}()
	v, o := evalTerm(t, m)
	if !o {
		return false, false
	}
	b, isB := v.(bool)
	return b, isB
}
