#!/bin/bash
# seedtest5.sh <PROP>  — confirm a round-6 seeded change (deliverables in /tmp/seed6/<PROP>, worktree /tmp/seed6/wt_<PROP>
# with patch.diff applied): demo fails with / passes without the change, build and existing tests with it.
export GOFLAGS=-mod=mod GOPROXY=off GOSUMDB=off GOTOOLCHAIN=local
P=$1; S=/tmp/seed6/$P; W=/tmp/seed6/wt_$P
DEMO=$(head -3 $S/demo_test.go | grep -o '[a-z/]*zz_seed6_demo_test.go' | head -1)
PKG=$(dirname $DEMO)
cd $W || exit 2
git diff --quiet && { echo "$P: worktree has no change"; exit 2; }
git diff > /tmp/seed6/$P/wt.diff
cp $S/demo_test.go $W/$DEMO
timeout 600 go test -vet=off -count=1 -run 'Seed6' ./$PKG/ 2>&1 | tail -4 > $S/demo_with.txt
git apply -R $S/patch.diff
timeout 600 go test -vet=off -count=1 -run 'Seed6' ./$PKG/ 2>&1 | tail -4 > $S/demo_without.txt
git apply $S/patch.diff
rm -f $W/$DEMO
(go build ./... && go test -vet=off -count=1 ./core/ ./sys/ ./cron/ ./service/ ./storage/... 2>&1 | grep -E "^(--- FAIL|FAIL|ok|panic)") > $S/existing_tests.txt 2>&1
echo "$P with: $(tail -1 $S/demo_with.txt | cut -c1-60) | without: $(tail -1 $S/demo_without.txt | cut -c1-60) | existing: $(grep -c '^ok' $S/existing_tests.txt) ok, fails: $(grep '^--- FAIL' $S/existing_tests.txt | tr '\n' ' ')"
